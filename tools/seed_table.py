#!/usr/bin/env python3
"""Print the markdown table of DESIGN section 12 from seeded/*/meta.json."""
import json, os
V = "/verif/seeded"
print("| seeded change | needs to manifest | first contact | target check now (quick) | also reported by |")
print("|---|---|---|---|---|")
for sid in sorted(os.listdir(V)):
    m = json.load(open(os.path.join(V, sid, "meta.json")))
    t = m["breaks_property"]
    c = m.get("checks", {}).get(t, {})
    st = {1: "**caught** (%ss)" % c.get("wall_s"), 0: "MISSED", None: "not run"}.get(c.get("exit"), "exit %s" % c.get("exit"))
    clause = ""
    if c.get("violations"):
        clause = " `" + c["violations"][0].split(" ")[0].replace("clause=", "") + "`"
    fc = m.get("first_contact", {}).get(t)
    fcs = "-" if fc is None else ("caught" if fc.get("exit") == 1 else "missed")
    others = [p for p, r in sorted(m.get("checks", {}).items()) if r.get("exit") == 1 and p != t]
    note = ""
    if m.get("apply_to"):
        note = " (against its base commit %s only)" % m["apply_to"]
    if m.get("thorough_only"):
        note += " " + m["thorough_only"]
    print("| %s | %s | %s | %s%s%s | %s |" % (sid, m["needs_to_manifest"].replace("|", "/")[:230], fcs, st, clause, note, ", ".join(others) or "-"))
