#!/usr/bin/env python3
"""Print the markdown table of DESIGN section 12 from seeded/*/meta.json."""
import json, os
V = "/verif/seeded"
print("| seeded change | breaks | needs to manifest | target check (quick) | also reported by |")
print("|---|---|---|---|---|")
for sid in sorted(os.listdir(V)):
    m = json.load(open(os.path.join(V, sid, "meta.json")))
    t = m["breaks_property"]
    c = m.get("checks", {}).get(t, {})
    st = {1: "**caught** (%ss)" % c.get("wall_s"), 0: "MISSED", None: "not run"}.get(c.get("exit"), "exit %s" % c.get("exit"))
    clause = ""
    if c.get("violations"):
        clause = " `" + c["violations"][0].split(" ")[0].replace("clause=", "") + "`"
    others = [p for p, r in sorted(m.get("checks", {}).items()) if r.get("exit") == 1 and p != t]
    bad = [p for p, r in sorted(m.get("checks", {}).items()) if r.get("exit") not in (0, 1)]
    print("| %s | %s | %s | %s%s | %s%s |" % (sid, t, m["needs_to_manifest"].replace("|", "/"), st, clause, ", ".join(others) or "-",
                                            ("; harness exit 2: " + ", ".join(bad)) if bad else ""))
