#!/bin/bash
# tools/mutant.sh <patch.diff> <prop> [quick|thorough]  -- run a check against a scratch copy of /repo with the patch applied
set -e
PATCH="$(readlink -f "$1")"; PROP="$2"; TIER="${3:-quick}"
D="$(mktemp -d /tmp/verif-mut-XXXXXX)"
trap 'rm -rf "$D"' EXIT
mkdir -p "$D/repo"
(cd /repo && git archive HEAD iOpt) | tar -x -C "$D/repo"
(cd "$D/repo" && git init -q . && git apply --whitespace=nowarn "$PATCH")
cd /verif
VERIF_REPO="$D/repo" VERIF_REPLAY_DIR="${KEEP_REPLAYS:-$D/replays}" VERIF_EVIDENCE_DIR="$D/evidence" ./check "$PROP" "$TIER"
