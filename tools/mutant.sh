#!/bin/bash
# tools/mutant.sh <patch.diff | seeded/<id> dir> <prop> [quick|thorough]  -- run a check against a scratch copy of /repo with the patch applied
# (scratch copy = git archive of /repo HEAD; if the patch does not apply there, of $BASE (default: the commit the seeded mutants were written against))
PATCH="$(readlink -f "$1")"; ONLY=""; [ -d "$PATCH" ] && [ -f "$PATCH/meta.json" ] && ONLY="$(python3 -c "import json,sys;print(json.load(open(sys.argv[1])).get('apply_to',''))" "$PATCH/meta.json")"
[ -d "$PATCH" ] && { [ -f "$PATCH/patch.head.diff" ] && PATCH="$PATCH/patch.head.diff" || PATCH="$PATCH/patch.diff"; }; PROP="$2"; TIER="${3:-quick}"; BASE="${BASE:-7d67693}"
D="$(mktemp -d /tmp/verif-mut-XXXXXX)"
trap 'rm -rf "$D"' EXIT
mkdir -p "$D/repo"
(cd /repo && git archive "${ONLY:-HEAD}" iOpt) | tar -x -C "$D/repo"
[ -n "$ONLY" ] && echo "note: this change is evaluated against commit $ONLY (meta.apply_to)"
if ! (cd "$D/repo" && git init -q . && git apply --whitespace=nowarn "$PATCH" 2>/dev/null); then
  rm -rf "$D/repo"; mkdir -p "$D/repo"
  (cd /repo && git archive "$BASE" iOpt) | tar -x -C "$D/repo"
  (cd "$D/repo" && git init -q . && git apply --whitespace=nowarn "$PATCH") || { echo "PATCH DOES NOT APPLY to HEAD nor $BASE"; exit 9; }
  echo "note: patch applied to base $BASE (does not apply to HEAD)"
fi
cd /verif
VERIF_REPO="$D/repo" VERIF_REPLAY_DIR="${KEEP_REPLAYS:-$D/replays}" VERIF_EVIDENCE_DIR="$D/evidence" ./check "$PROP" "$TIER"
