#!/bin/bash
# tools/seed_confirm.sh <worktree> <A|B>  -- confirm a sub-agent's mutant: patch applies, tests pass, demo fails with / passes without
WT="$1"; X="$2"
cd "$WT" || exit 9
git checkout -q -- . 
git apply --check "MUTANTS/$X.diff" || { echo "PATCH DOES NOT APPLY"; exit 8; }
cp "MUTANTS/demo_$X.py" "./demo_$X.py"
echo "--- demo on original"; MPLBACKEND=Agg timeout 600 /venv/bin/python "demo_$X.py" > /tmp/seed_demo_orig.txt 2>&1; RC0=$?; tail -2 /tmp/seed_demo_orig.txt
git apply "MUTANTS/$X.diff"
echo "--- tests with mutant"; timeout 1800 /venv/bin/python -m pytest -q -p no:cacheprovider --timeout=900 2>&1 | tail -1
echo "--- demo with mutant"; MPLBACKEND=Agg timeout 600 /venv/bin/python "demo_$X.py" > /tmp/seed_demo_mut.txt 2>&1; RC1=$?; tail -3 /tmp/seed_demo_mut.txt
git checkout -q -- .
echo "RESULT demo_orig_rc=$RC0 demo_mutant_rc=$RC1"
