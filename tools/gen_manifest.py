#!/usr/bin/env python3
"""Regenerates /verif/MANIFEST.json (kept valid at all times)."""
import json, os
HERE = os.path.dirname(os.path.dirname(os.path.abspath(__file__)))
NA = {
 "C01":"The eps-optimality bound is a function of (objective, box, r, eps) alone; deciding it needs a true-global-minimum oracle and the convergence theorem, not schedules or faults - no schedule, clock, fault or interleaving can change its truth (C11/C12 show call patterns cannot change the result).",
 "C07":"Bijection between the 2^(N*m) sub-intervals and grid cells is a combinatorial fact about a pure map; there is nothing to schedule or fail (history-dependence of the map is simulated under C17).",
 "C08":"Adjacency/nesting/Hoelder inequality of the same pure map: a for-all over pairs of reals, no schedule/fault dimension.",
 "C09":"Round-trip law of two pure maps; their history-independence is simulated (C17), their algebra is not a simulation target.",
 "C10":"'No point of the box is lower than the declared optimum' is global optimisation over a continuum for ~2500 pure functions; no schedule/fault dimension.",
 "C14":"Structural facts (continuity, basin geometry, reference values) of 400 pure functions; their history-independence is simulated (C15).",
 "C18":"Static metadata and table-versus-function agreement; no run-time behaviour involved.",
}
CHECKS = {
 "C02": ("exploration", "4 C02", "step-wise refinement against an executable from-scratch AGP decision-rule model",
         "Seeded search over objectives/boxes/parameters/driver schedules; every trial of every prefix of every simulated run is checked against a from-scratch AGP model (arg-max interval with current M and z*, point formula, strict interior, no repeated curve point, first trial = image of 0.5). Plans include refinement followed by more iterations, coarse and fine evolvent densities, a second interleaved solver (also sharing its SolverParameters or Problem object), evolvent queries by the caller; thorough adds ~100 histories of 5-16 thousand trials. Sampling, not proof.",
         "Trusts the repo's Evolvent for 'image of x' (C07-C09 are not applicable here), the model's arithmetic (1e-12 relative tolerance on characteristics) and the objective seam's log as ground truth."),
 "C03": ("exploration", "4 C03", "model-predicted stop index + evaluation accounting at the objective seam + bounded-liveness watchdog",
         "Solve-driven simulated runs incl. off-by-one edge configurations (eps placed 1e-6 around interval lengths the same search subdivides, budgets T*-1/T*/T*+1, itersLimit 1..3, eps>=1): evaluations counted at the seam must equal the reported count, the stop index must equal the model's, accuracy must equal the model's minimum subdivided length; an evaluation/iteration budget watchdog decides termination. Also: resuming after the budget/eps field was changed, the startPoint parameter, and a fault configuration (one transient objective failure inside a batch or inside Solve, then Solve): reported = completed evaluations and the budget still binds.",
         "Stop index and accuracy come from the AGP model fed with the observed trial history; float exhaustion below the documented eps floor is counted inconclusive, never a violation."),
 "C04": ("exploration", "4 C04", "best-trial invariant evaluated at every observation moment of simulated schedules",
         "The invariant 'best = an evaluated point, value = objective there, no evaluated trial smaller' is evaluated after every driver op, inside every OnEndIteration/OnMethodStop callback and on every returned Solution, on tie-heavy objectives, alone and with an interleaved/re-entrant second solver; plus monotonicity (the best trial verified at an earlier moment - global or locally refined - is an evaluated trial, the current best may not be worse: found defect 9), shipped console/painting listeners attached, objective failures in the global and the refinement phase with the driver continuing.",
         "Ground truth is the objective seam's own call log; for shipped benchmarks the logged value (not a re-evaluation) is the reference."),
 "C05": ("exploration", "4 C05", "domain-trap monitor on every call crossing the objective seam + refinement monotonicity",
         "Adversarial environments (monotone, outside-vertex paraboloids, outside cones) with refineSolution and explicit DoLocalRefinement(n): every global/local evaluation and every returned point must lie in the box EXACTLY (no rounding allowance; this found the 1-ulp defect 11); refined value <= best global value and == f(returned point). Boxes also given with int-typed bounds; driver-stepped corner runs to double-precision exhaustion; refine - search on - refine again; transient objective failure with the caller continuing; the caller querying the solver's evolvent (incl. with the live best-point array).",
         "scipy's Nelder-Mead is real code and trusted as a component; painter probes are excluded (C13 runs them)."),
 "C06": ("exploration", "4 C06", "record-vs-seam-history oracle after every step of simulated schedules",
         "After every op and inside every OnEndIteration: strictly increasing coordinates 0..1, consistent links, count, bijection of interior items with the seam's trial log (point and value), stored length == (x-x_left)^(1/N), stored point == image under a fresh Evolvent of the solver's density.",
         "Stated relaxation: each local refinement rewrites the then-best item in place; at most one such item per refinement is skipped."),
 "C11": ("exploration", "4 C11", "same spec under different call schedules (batch compositions, repeated Solve, repeated execution) must give identical trial histories",
         "Twin (Solve only), one-at-a-time reference and a random batching (incl. overshoot) must agree bit-for-bit on the objective log; length = max(sum k, T*); a second Solve adds nothing; GetResults()/evolvent queries between batches and listener-free solvers (reading must not steer the search); a decoy solver alive in between; the same plan executed twice in one process gives the same digest; thorough adds all 2^(n-1) compositions for short runs and fresh-interpreter / other PYTHONHASHSEED digests.",
         "Reference executions run inside the same simulator; equality is exact (float.hex)."),
 "C12": ("exploration", "4 C12", "multi-actor interleaving (step-level and re-entrant) vs. solo runs in a fresh process + foreign-op state-stability monitor",
         "2-4 solvers interleaved at step boundaries and re-entrantly inside each other's objective evaluations and listener callbacks; each actor's per-op observable summaries must equal a solo run of the same ops in a fresh process, and no actor's state (incl. Solutions handed out earlier) may change across another actor's op; solvers sharing ONE SolverParameters object, the library's default-argument object, or ONE Problem object; a 6-dimensional co-actor; thorough enumerates all interleavings of two short runs.",
         "Single-threaded interleaving only (the library makes no thread-safety claim); every simulated run starts in a freshly forked process."),
 "C13": ("exploration", "4 C13", "notification-history oracle over simulated listener configurations + listener-free twin run",
         "All 8 override subsets of the base Listener and the shipped console/painter listeners (painters render through matplotlib-Agg into an in-memory file system): nothing raises, notification counts/order/payloads match the seam history, objective log and result equal a listener-free twin in a fresh process, console final block equals the returned solution. Listener variants: callbacks inherited from an intermediate class, from a mixin, subclass of the shipped console listener; a second solver with its own listeners; 250-600-trial runs; resuming after the budget was raised (one more OnMethodStop); fault configuration (one transient objective failure, driver continues: later notifications carry exactly their own call's trials, a failed call announces nothing it did not complete).",
         "Painter numerical failures inside scipy/sklearn on degenerate data are counted inconclusive."),
 "C15": ("exploration", "4 C15", "arbitrary construct/evaluate schedules over a pool of benchmark actors vs. clean-room values from a fresh process",
         "Every evaluation in a simulated schedule of constructions, evaluations, drops and interposed solver runs must equal, bit for bit, the value from an instance constructed for that purpose in a fresh process and evaluated once; point unchanged; returned holder is the supplied one. Sibling members asked about exactly the same points, neighbouring Grishagin numbers, caller-side work buffers overwritten in place, value holders re-used or pre-set, occasional out-of-box requests in between.",
         "Clean-room values come from the same code in a pristine process (an impure-but-consistent function is invisible: C10/C14)."),
 "C16": ("fault_enumeration", "4 C16", "objective fault injected at every evaluation index x every exception kind x before/after holder write; post-fault state vs. fault-free prefix",
         "For each sampled spec the fault-free twin gives T trials; every k in 2..T x 8 exception kinds (incl. KeyboardInterrupt, SystemExit, GeneratorExit, a private BaseException) x {before, after the holder write} is its own simulated run: Solve must return, log = first k-1 trials + failed call, count = k-1, best = a minimiser of the first k-1 values, record rules hold with k+1 items and no item at the failed coordinate, nothing but completed trials is ever announced to a listener; exceptions with and without constructor arguments; with refineSolution on the failing evaluation ranges over the refinement phase too (found defect 7); after a transient failure a second Solve must carry on from the recorded state.",
         "Exhaustive over fault positions and kinds within each explored run; the specs themselves are a seeded sample. Nothing is asserted about solutionAccuracy after a fault."),
 "C17": ("exploration", "4 C17", "arbitrary call histories on one Evolvent vs. a fresh object per query, with caller-side aliasing faults",
         "Random streams of GetImage/GetInverseImage/GetPreimages/SetBounds with arguments that alias earlier results and caller overwrites of returned arrays and of arrays passed as bounds: each answer must equal a fresh Evolvent's, arguments unchanged, earlier results unchanged; points also passed as int lists / int arrays (found defect 10).",
         "An evolvent that is wrong but pure is invisible (C07-C09)."),
 "C19": ("exploration", "4 C19", "operation-by-operation refinement against an ordered-set model and a nondeterministic bounded max-queue model (state-set tracking)",
         "Random op histories on SearchData, SearchDataDualQueue and CharacteristicsQueue incl. stale characteristics and bounded queues: traversal/links/count/lookup against an ordered set; best-interval answers must be producible by some queue content admissible under every tie order; equal coordinates included (positional model: a hinted insertion goes immediately left of its hint); thorough adds all short op sequences over a 3-key alphabet.",
         "Requests are issued only when the documented precondition holds; tie order is never assumed."),
 "C20": ("exploration", "4 C20", "configuration swarm over evolventDensity with a grid monitor on every global-phase point crossing the objective seam",
         "evolventDensity m in 2..12 as a per-run knob, N in 2..5, any box/objective: every coordinate of every global trial must be lower+(j+1/2)*side/2^m (1e-6 cell tolerance). Density written by constructor argument, by attribute assignment, as a numpy integer; company of solvers with OTHER densities whose lifetimes overlap; evolvent queries by the caller; transient objective failure with the driver continuing.",
         "Uses only points observed at the objective seam; with m=10 (default) a solver ignoring the parameter is invisible, so m!=10 is the non-trivial case."),
}
m = {"version": 1,
     "setup_cmd": "/venv/bin/python -c \"import numpy, scipy, matplotlib, sklearn, depq\" && ./check selftest smoke",
     "hooks": {"guard": "IOPT_VERIF",
               "enable": "no hooks: every seam is a public extension point (Problem / Listener subclasses) or a patchable module attribute (process.datetime, pyplot.savefig/show, the painter modules' os); nothing in /repo is guarded, checks import /repo's working tree directly",
               "baseline_off_cmd": "cd /repo && /venv/bin/python -m pytest -ra -q -p no:cacheprovider --timeout=900 --continue-on-collection-errors",
               "source_commits": [], "add_only": True},
     "engines": [{"name": "dsim", "path": "dsim", "serves_properties": sorted(CHECKS),
                  "kind_free_text": "deterministic simulator: plan-driven scheduler (driver ops, re-entrant pre-emption at objective/listener call-outs), objective/listener/clock/file-system/stdout seams, fault injection at the objective seam, executable reference models (AGP, ordered set + nondeterministic bounded max-queue), plan shrinker, replay files, one forked process per simulated run"}],
     "checks": [], "not_applicable": [{"property_id": k, "reason": v} for k, v in NA.items()],
     "notes": "See DESIGN.md. ./check <id> quick|thorough; ./check <id> --replay <file>; ./check selftest. VERIF_SEED is the master seed (default 1). Genuine defects found and repaired are listed in known-findings.txt with replay files under findings/."}
for pid in sorted(CHECKS):
    cat, ref, tech, text, note = CHECKS[pid]
    m["checks"].append({"property_id": pid, "quick_cmd": "./check %s quick" % pid, "thorough_cmd": "./check %s thorough" % pid,
                        "evidence_file": "/verif/evidence/%s.json" % pid, "replay_cmd_template": "./check %s --replay {path}" % pid,
                        "engine": "dsim", "level_claimed": {"category": cat, "text": text, "design_ref": "DESIGN.md section " + ref},
                        "level_note": note, "technique": "deterministic simulation with fault injection: " + tech})
json.dump(m, open(os.path.join(HERE, "MANIFEST.json"), "w"), indent=1)
print("wrote MANIFEST.json with", len(m["checks"]), "checks")
