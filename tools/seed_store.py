#!/usr/bin/env python3
"""Copy a confirmed sub-agent mutant into /verif/seeded/<id>/ (patch.diff, demo.py, notes.md, meta.json)."""
import json, os, shutil, subprocess, sys
prop, x, slug, needs = sys.argv[1], sys.argv[2], sys.argv[3], sys.argv[4]
wt = os.environ.get("SEED_WT", "/tmp/wt-%s" % prop)
sid = "%s-%s-%s" % (prop, x, slug)
d = os.path.join("/verif/seeded", sid)
os.makedirs(d, exist_ok=True)
shutil.copy(os.path.join(wt, "MUTANTS", x + ".diff"), os.path.join(d, "patch.diff"))
shutil.copy(os.path.join(wt, "MUTANTS", "demo_%s.py" % x), os.path.join(d, "demo.py"))
shutil.copy(os.path.join(wt, "MUTANTS", "notes.md"), os.path.join(d, "notes.md"))
conf = open("/tmp/confirm/%s-%s.log" % (prop, x), errors="replace").read()
import re as _re
tests = [l for l in conf.splitlines() if _re.search(r"\d+ (passed|failed)", l)]
res = [l for l in conf.splitlines() if l.startswith("RESULT")]
files = [l[6:] for l in open(os.path.join(d, "patch.diff")) if l.startswith("+++ b/")]
meta = {"id": sid, "breaks_property": prop, "author": "independent sub-agent given only the property text and a scratch worktree",
        "base_commit": os.environ.get("SEED_BASE", "7d67693"), "files": [f.strip() for f in files], "needs_to_manifest": needs,
        "confirmed": {"tests_with_mutant": tests[-1] if tests else None, "demo": res[-1] if res else None,
                      "how": "tools/seed_confirm.sh /tmp/wt-%s %s (git apply; pytest; demo.py with the change -> exit 1; git checkout; demo.py without -> exit 0)" % (prop, x)},
        "checks": {}}
json.dump(meta, open(os.path.join(d, "meta.json"), "w"), indent=1)
print("stored", d)
