#!/usr/bin/env python3
"""Run every check against every seeded mutant (scratch copy of /repo + patch) and record the outcome in
seeded/<id>/meta.json["checks"].  Usage: tools/seed_matrix.py [--only-target] [--as-of <old checkout of /verif>] [ids...]
(env VERIF_CHECK_HOME=<frozen checkout> runs that checkout's ./check, so that /verif can be edited meanwhile)"""
import json, os, subprocess, sys, tempfile, shutil, time
from concurrent.futures import ThreadPoolExecutor
V = "/verif"
ALL = ["C02", "C03", "C04", "C05", "C06", "C11", "C12", "C13", "C15", "C16", "C17", "C19", "C20"]
argv = sys.argv[1:]
AS_OF = None            # --as-of <dir>: run <dir>/check (an older checkout of /verif) and store under meta["first_contact"]
if "--as-of" in argv:
    i = argv.index("--as-of")
    AS_OF = argv[i + 1]
    del argv[i:i + 2]
args = [a for a in argv if not a.startswith("--")]
only_target = "--only-target" in argv
ids = args or sorted(os.listdir(os.path.join(V, "seeded")))
BASE = "7d67693"


def scratch(patch, bases=("HEAD", BASE)):
    d = tempfile.mkdtemp(prefix="verif-mx-", dir="/tmp")
    os.makedirs(d + "/repo")
    for base in bases:
        shutil.rmtree(d + "/repo", ignore_errors=True)
        os.makedirs(d + "/repo")
        subprocess.run("cd /repo && git archive %s iOpt | tar -x -C %s/repo" % (base, d), shell=True, check=True)
        r = subprocess.run("cd %s/repo && git init -q . && git apply --whitespace=nowarn %s" % (d, patch), shell=True, capture_output=True)
        if r.returncode == 0:
            return d, base
    raise RuntimeError("patch does not apply: " + patch)


def run(sid):
    sd = os.path.join(V, "seeded", sid)
    meta = json.load(open(sd + "/meta.json"))
    if meta.get("apply_to"):       # a change that is only meaningful against a particular commit (see meta["note"])
        d, base = scratch(sd + "/patch.diff", (meta["apply_to"],))
    else:
        d, base = scratch(sd + ("/patch.head.diff" if os.path.exists(sd + "/patch.head.diff") else "/patch.diff"),
                          ("HEAD", meta.get("base_commit") or BASE, BASE))
    try:
        meta["applied_to"] = base if base != "HEAD" else subprocess.run("git -C /repo log --format=%h -1", shell=True, capture_output=True, text=True).stdout.strip()
        props = [meta["breaks_property"]] if only_target else ALL
        for prop in props:
            if os.environ.get("MATRIX_KEEP_TARGET") and prop == meta["breaks_property"] and meta["checks"].get(prop, {}).get("exit") == 1:
                continue        # (a reduced-budget cross sweep does not re-judge the target check)
            env = dict(os.environ, VERIF_REPO=d + "/repo", VERIF_REPLAY_DIR=d + "/replays", VERIF_EVIDENCE_DIR=d + "/evidence",
                       VERIF_WORKERS="5", VERIF_BUDGET_S=os.environ.get("MATRIX_BUDGET_S", "60"))
            t0 = time.time()
            cp = subprocess.run([(AS_OF or os.environ.get("VERIF_CHECK_HOME") or V) + "/check", prop, "quick"], capture_output=True, text=True, env=env, timeout=3600)
            lines = cp.stdout.splitlines()
            vio = [l.strip() for l in lines if l.startswith("  clause=")]
            meta.setdefault("first_contact", {})
            (meta["first_contact"] if AS_OF else meta["checks"])[prop] = {"exit": cp.returncode, "wall_s": round(time.time() - t0, 1),
                                    "violations": [v[:300] for v in vio[:2]],
                                    "summary": next((l for l in reversed(lines) if l.startswith("property=")), "")}
            json.dump(meta, open(sd + "/meta.json", "w"), indent=1)
        if not only_target and not AS_OF:
            meta["detected_by"] = sorted(p for p, r in meta["checks"].items() if r["exit"] == 1)
        json.dump(meta, open(sd + "/meta.json", "w"), indent=1)
        print(sid, "detected_by", meta.get("detected_by"), {p: r["exit"] for p, r in meta["checks"].items()}, flush=True)
    finally:
        shutil.rmtree(d, ignore_errors=True)


with ThreadPoolExecutor(3) as ex:
    list(ex.map(run, ids))
