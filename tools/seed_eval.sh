#!/bin/bash
# tools/seed_eval.sh <prop> <A|B> [check-prop ...] -- confirm a sub-agent mutant and run checks against it
P="$1"; X="$2"; shift 2
CHECKS="${@:-$P}"
WT=/tmp/wt-$P
echo "===== $P/$X"; grep -c . $WT/MUTANTS/$X.diff | sed 's/^/diff lines: /'; grep '^+++' $WT/MUTANTS/$X.diff
/verif/tools/seed_confirm.sh $WT $X 2>&1 | grep -v -i "warn\|^  \"\"\"" | grep -- "---\|RESULT\|passed\|failed\|APPLY"
for C in $CHECKS; do
  /verif/tools/mutant.sh $WT/MUTANTS/$X.diff $C 2>&1 | grep -v -i "warn" | grep "VIOLATION\|clause=\|^property=\|HARNESS" | head -6
done
