"""Reference models: AGPModel (executable statement of C02/C03) and ContainerModel (C19).

AGPModel never stores characteristics: at each step it recomputes all of them from
(xs, zs, M, zstar, r, N).  It is a checker: after each step it adopts the observed history.
"""
import bisect
import math

import numpy as np

INF = float("inf")


class AGPModel:
    R_RTOL = 1e-12

    def __init__(self, N, r):
        self.N = int(N)
        self.r = float(r)
        self.xs = [0.0, 1.0]
        self.zs = [None, None]
        self.M = 1.0
        self.zstar = INF
        self.chosen = []        # Hoelder length of the interval subdivided by trial i (i>=2)
        self.n = 0
        # reach probes
        self.probe = {"M_grew": 0, "new_opt": 0, "boundary_chosen": 0, "interior_chosen": 0,
                      "tie_max": 0, "left_of_prev": 0}
        self._last_x = None

    # -- characteristics, from scratch
    def _delta(self, xl, xr):
        return pow(xr - xl, 1.0 / self.N)

    def _R(self, i):
        """characteristic of interval (xs[i-1], xs[i]) with the current M, zstar"""
        xl, xr = self.xs[i - 1], self.xs[i]
        zl, zr = self.zs[i - 1], self.zs[i]
        d = self._delta(xl, xr)
        r, M, Z = self.r, self.M, self.zstar
        if zl is not None and zr is not None:
            return d + (zr - zl) * (zr - zl) / (d * M * M * r * r) - 2 * (zr + zl - 2 * Z) / (r * M)
        if zl is None:
            return 2 * d - 4 * (zr - Z) / (r * M)
        return 2 * d - 4 * (zl - Z) / (r * M)

    def all_R(self):
        n = len(self.xs)
        if n <= 48:
            return [self._R(i) for i in range(1, n)]
        xs = np.array(self.xs, dtype=np.float64)
        z = np.array([0.0 if v is None else v for v in self.zs], dtype=np.float64)
        d = np.power(xs[1:] - xs[:-1], 1.0 / self.N)
        r, M, Z = self.r, self.M, self.zstar
        zl, zr = z[:-1], z[1:]
        R = d + (zr - zl) * (zr - zl) / (d * M * M * r * r) - 2 * (zr + zl - 2 * Z) / (r * M)
        R[0] = 2 * d[0] - 4 * (zr[0] - Z) / (r * M)
        R[-1] = 2 * d[-1] - 4 * (zl[-1] - Z) / (r * M)
        return R.tolist()

    def rule_point(self, i):
        xl, xr = self.xs[i - 1], self.xs[i]
        zl, zr = self.zs[i - 1], self.zs[i]
        x = 0.5 * (xl + xr)
        if zl is not None and zr is not None:
            dif = zr - zl
            dg = 1.0 if dif > 0 else -1.0
            x -= 0.5 * dg * pow(abs(dif) / self.M, self.N) / self.r
        return x

    def exhausted(self):
        """True if (one of) the rule's next point(s) is not strictly inside its interval in
        double precision - float exhaustion, about which every property is silent."""
        if self.n == 0:
            return False
        R = self.all_R()
        Rmax = max(R)
        tol = self.R_RTOL * max(1.0, abs(Rmax))
        for j, Rj in enumerate(R):
            if Rj >= Rmax - tol:
                i = j + 1
                x = self.rule_point(i)
                if not (self.xs[i - 1] < x < self.xs[i]):
                    return True
        return False

    def step(self, x, z):
        """Check trial (x, z) against the rule, then adopt it.  Returns a list of
        (clause, message) issues (empty = the step is an admissible AGP step)."""
        issues = []
        x = float(x)
        z = float(z)
        self.n += 1
        if self.n == 1:
            if x != 0.5:
                issues.append(("first_point", "first trial at x=%r, expected 0.5" % x))
            chosen_len = None
        else:
            i = bisect.bisect_left(self.xs, x)
            if i < len(self.xs) and self.xs[i] == x:
                issues.append(("repeat", "curve point x=%r evaluated twice" % x))
                chosen_len = None
                i = None
            elif i == 0 or i >= len(self.xs):
                issues.append(("outside", "trial x=%r outside [0,1]" % x))
                chosen_len = None
                i = None
            if i is not None:
                xl, xr = self.xs[i - 1], self.xs[i]
                R = self.all_R()
                Rmax = max(R)
                Rj = R[i - 1]
                tol = self.R_RTOL * max(1.0, abs(Rmax))
                if not (Rj >= Rmax - tol):
                    jbest = R.index(Rmax)
                    issues.append(("argmax", "trial %d subdivides (%r,%r) with R=%r but interval (%r,%r) has R=%r (M=%r z*=%r)"
                                   % (self.n, xl, xr, Rj, self.xs[jbest], self.xs[jbest + 1], Rmax, self.M, self.zstar)))
                else:
                    ties = sum(1 for v in R if v >= Rmax - tol)
                    if ties > 1:
                        self.probe["tie_max"] += 1
                xe = self.rule_point(i)
                if abs(x - xe) > max(4 * math.ulp(max(abs(x), abs(xe))), 1e-9 * (xr - xl)):
                    issues.append(("point_rule", "trial %d at x=%r, rule gives %r in (%r,%r) (zl=%r zr=%r M=%r)"
                                   % (self.n, x, xe, xl, xr, self.zs[i - 1], self.zs[i], self.M)))
                chosen_len = self._delta(xl, xr)
                if self.zs[i - 1] is None or self.zs[i] is None:
                    self.probe["boundary_chosen"] += 1
                else:
                    self.probe["interior_chosen"] += 1
        if self._last_x is not None and x < self._last_x:
            self.probe["left_of_prev"] += 1
        self._last_x = x
        # adopt
        if self.n > 1:
            self.chosen.append(chosen_len)
        i = bisect.bisect_left(self.xs, x)
        if not (i < len(self.xs) and self.xs[i] == x) and 0 < i < len(self.xs):
            self.xs.insert(i, x)
            self.zs.insert(i, z)
            zl, zr = self.zs[i - 1], self.zs[i + 1]
            grew = False
            if zl is not None:
                m = abs(zl - z) / self._delta(self.xs[i - 1], x)
                if m > self.M:
                    self.M = m; grew = True
            if zr is not None:
                m = abs(zr - z) / self._delta(x, self.xs[i + 1])
                if m > self.M:
                    self.M = m; grew = True
            if grew:
                self.probe["M_grew"] += 1
        if z < self.zstar:
            if self.n > 1:
                self.probe["new_opt"] += 1
            self.zstar = z
        return issues

    # -- C03
    def min_chosen(self, upto=None):
        vals = [v for v in self.chosen[: (None if upto is None else max(0, upto - 1))] if v is not None]
        return min(vals) if vals else INF

    def stop_index(self, eps, itersLimit):
        """First trial count i>=1 at which the stop criterion holds (None if not reached yet)."""
        mn = INF
        for i in range(1, self.n + 1):
            if i >= 2:
                v = self.chosen[i - 2]
                if v is not None and v < mn:
                    mn = v
            if mn < eps or i >= itersLimit:
                return i
        return None


# --------------------------------------------------------------------------- C19

class ContainerModel:
    """Ordered set of items by coordinate + a (possibly bounded) multiset of queue entries.

    Queue entries are (key, item_id).  Ties are handled with sets of admissible answers.
    """

    def __init__(self, maxlen=None, dual=False):
        self.maxlen = maxlen
        self.dual = dual
        self.items = []          # sorted list of (x, id)
        self.order = []          # insertion order ids
        self.q = {"g": [], "l": []}   # outstanding entries: list of [key, id]

    def xs(self):
        return [x for x, _ in self.items]

    def ids(self):
        return [i for _, i in self.items]

    def insert_first(self, lid, lx, rid, rx):
        self.items = [(lx, lid), (rx, rid)]
        self.order = [lid, rid]

    def find_right(self, x):
        """first item with coordinate > x"""
        for xi, i in self.items:
            if xi > x:
                return i
        return None

    def insert(self, nid, x):
        bisect.insort(self.items, (x, nid))
        self.order.append(nid)

    def _push(self, which, key, iid):
        """Bounded max-queue: retained multiset of keys = top-maxlen of pushed keys.  Returns
        nothing; identity at the cut-off tie is left open by marking entries 'soft'."""
        q = self.q[which]
        q.append([key, iid])
        if self.maxlen is not None and len(q) > self.maxlen:
            mn = min(e[0] for e in q)
            # drop one entry with the minimal key; which one (among ties) is open
            cands = [e for e in q if e[0] == mn]
            if len(cands) == 1:
                q.remove(cands[0])
            else:
                # ambiguous: keep all but remember that one of them is gone
                self._ambiguous_drop(which, mn)

    def _ambiguous_drop(self, which, key):
        q = self.q[which]
        # mark: represented by an entry [key, None, 'hole'] meaning one of the key-tied entries is absent
        q.append([key, None])

    def clear(self):
        self.q = {"g": [], "l": []}
