"""Spec-driven pure objective families: JSON spec -> python closure f(y) -> float.

Everything is plain `math` on python floats, so a spec denotes the same function in every
interpreter.  Values stay finite and moderate (|f| <= ~1e6 on and around the box).
"""
import math


def build(spec):
    fam = spec["family"]
    return _BUILDERS[fam](spec)


def _cones(spec):
    terms = [(float(t["c"]), float(t["w"]), tuple(float(v) for v in t["a"])) for t in spec["terms"]]

    def f(y):
        best = None
        for c, w, a in terms:
            s = 0.0
            for yi, ai in zip(y, a):
                d = yi - ai
                s += d * d
            v = c + w * math.sqrt(s)
            if best is None or v < best:
                best = v
        return best
    return f


def _sines(spec):
    A = [float(v) for v in spec["A"]]
    W = [float(v) for v in spec["W"]]
    P = [float(v) for v in spec["P"]]
    c = float(spec.get("c", 0.0))

    def f(y):
        s = c
        for yi, a, w, p in zip(y, A, W, P):
            s += a * math.sin(w * yi + p)
        return s
    return f


def _paraboloid(spec):
    S = [float(v) for v in spec["S"]]
    V = [float(v) for v in spec["V"]]
    c = float(spec.get("c", 0.0))

    def f(y):
        s = c
        for yi, si, vi in zip(y, S, V):
            d = yi - vi
            s += si * d * d
        return s
    return f


def _linear(spec):
    G = [float(v) for v in spec["G"]]
    c = float(spec.get("c", 0.0))

    def f(y):
        s = c
        for yi, g in zip(y, G):
            s += g * yi
        return s
    return f


def _const(spec):
    c = float(spec["c"])

    def f(y):
        return c
    return f


def _quant(spec):
    """floor(inner(y) * q) / q : exact ties in values (lattice) / piecewise constant (step)."""
    inner = build(spec["inner"])
    q = float(spec["q"])

    def f(y):
        return math.floor(inner(y) * q) / q
    return f


def _scaled(spec):
    """k * inner(y): the same minimisers, other values."""
    inner = build(spec["inner"])
    k = float(spec["k"])

    def f(y):
        return k * inner(y)
    return f


def _npenv(spec):
    """inner(y), computed the way numerical user code often is: with a numpy intermediate that underflows.  Under numpy's
    default error mode (under='ignore') that is silent and exact; the value equals inner(y) bit for bit."""
    import numpy as np
    inner = build(spec["inner"])

    def f(y):
        v = inner(y)
        tiny = np.float64(1e-200) * np.float64(1e-200)      # 0.0 - unless somebody left np.seterr(under='raise') behind
        return v + float(tiny)
    return f


def _shipped(spec):
    """A real benchmark problem from iOpt/problems, evaluated on a private instance."""
    prob = make_shipped(spec)
    from iOpt.trial import Point, FunctionValue
    import numpy as np

    def f(y):
        fv = FunctionValue()
        fv = prob.Calculate(Point(np.array(y, dtype=np.double), []), fv)
        return float(fv.value)
    f.problem = prob
    return f


def make_shipped(spec):
    cls = spec["cls"]
    args = list(spec.get("args", []))
    if cls == "GKLS":
        from iOpt.problems.GKLS import GKLS as K
    elif cls == "Grishagin":
        from iOpt.problems.grishagin import Grishagin as K
    elif cls == "Hill":
        from iOpt.problems.hill import Hill as K
    elif cls == "Shekel":
        from iOpt.problems.shekel import Shekel as K
    elif cls == "Shekel4":
        from iOpt.problems.shekel4 import Shekel4 as K
    elif cls == "Rastrigin":
        from iOpt.problems.rastrigin import Rastrigin as K
    elif cls == "XSquared":
        from iOpt.problems.xsquared import XSquared as K
    elif cls == "StronginC3":
        from iOpt.problems.stronginC3 import StronginC3 as K
    else:
        raise ValueError("unknown shipped class " + cls)
    return K(*args)


_BUILDERS = {
    "cones": _cones, "sines": _sines, "paraboloid": _paraboloid, "linear": _linear,
    "const": _const, "quant": _quant, "shipped": _shipped, "scaled": _scaled, "npenv": _npenv,
}


# --------------------------------------------------------------------------- generation

def _r3(rng, lo, hi):
    """A 'round' random number (3 significant decimals) so replay files stay readable."""
    return float("%.3g" % rng.uniform(lo, hi))


def gen_int_box(rng, N):
    """Integer-valued box (to be presented with integer-typed bounds, as the shipped GKLS does)."""
    lower, upper = [], []
    for _ in range(N):
        lo = rng.randint(-6, 6)
        side = rng.choice([1, 1, 2, 3, 4, 5, 7])
        lower.append(float(lo))
        upper.append(float(lo + side))
    return lower, upper


def gen_box(rng, N, kind=None):
    lower, upper = [], []
    for _ in range(N):
        k = kind or rng.choice(["unit", "sym", "asym", "far", "thin"])
        if k == "unit":
            lo, side = 0.0, 1.0
        elif k == "sym":
            side = _r3(rng, 0.5, 10); lo = -side / 2
        elif k == "asym":
            lo = _r3(rng, -10, 10); side = _r3(rng, 0.1, 20)
        elif k == "far":
            lo = _r3(rng, -1000, 1000); side = _r3(rng, 0.5, 20)
        else:
            lo = _r3(rng, -5, 5); side = _r3(rng, 0.01, 0.1)
        lower.append(lo)
        upper.append(lo + side)
    return lower, upper


def gen_spec(rng, N, lower, upper, families=None):
    """Draw an objective spec for the box.  `families` restricts the choice."""
    fams = families or ["cones", "cones", "sines", "paraboloid", "linear", "const", "lattice", "step"]
    fam = rng.choice(fams)
    side = [u - l for l, u in zip(lower, upper)]

    def pt(spread):
        # a point inside the box (spread=1) or around it (spread>1)
        return [float("%.4g" % (l + s * (0.5 + spread * (rng.random() - 0.5)))) for l, s in zip(lower, side)]

    if fam == "cones":
        n = rng.choice([1, 2, 3, 5, 8])
        sp = rng.choice([1.0, 1.0, 1.6, 3.0])
        terms = [{"c": _r3(rng, -5, 5), "w": _r3(rng, 0.05, 30) / max(side), "a": pt(sp)} for _ in range(n)]
        return {"family": "cones", "N": N, "terms": terms}
    if fam == "sines":
        return {"family": "sines", "N": N,
                "A": [_r3(rng, 0.1, 10) for _ in range(N)],
                "W": [_r3(rng, 0.3, 25) / s for s in side],
                "P": [_r3(rng, 0, 6.3) for _ in range(N)], "c": _r3(rng, -20, 20)}
    if fam == "paraboloid":
        sp = rng.choice([0.9, 1.0, 2.5, 6.0])   # vertex often outside the box
        return {"family": "paraboloid", "N": N,
                "S": [_r3(rng, 0.05, 20) / (s * s) for s in side], "V": pt(sp), "c": _r3(rng, -50, 50)}
    if fam == "linear":
        G = [rng.choice([-1, 1]) * _r3(rng, 0.01, 40) / s for s in side]
        if N > 1 and rng.random() < 0.3:
            G[rng.randrange(N)] = 0.0
        return {"family": "linear", "N": N, "G": G, "c": _r3(rng, -100, 100)}
    if fam == "const":
        return {"family": "const", "N": N, "c": rng.choice([0.0, 1.0, -3.5, _r3(rng, -1e3, 1e3)])}
    if fam in ("lattice", "step"):
        inner = gen_spec(rng, N, lower, upper, ["cones", "sines", "paraboloid", "linear"])
        q = rng.choice([8.0, 8.0, 4.0, 64.0]) if fam == "lattice" else rng.choice([1.0, 0.5, 2.0, 0.25])
        return {"family": "quant", "N": N, "inner": inner, "q": q}
    raise ValueError(fam)


SHIPPED_1D = ["Hill", "Shekel"]


def gen_shipped(rng, dims=(1, 2, 3, 4, 5), cheap=True):
    """A shipped benchmark member.  Returns spec with N filled."""
    N = rng.choice(list(dims))
    if N == 1:
        cls = rng.choice(["Hill", "Shekel", "Rastrigin", "XSquared"])
    elif N == 2:
        cls = rng.choice(["GKLS", "GKLS", "Rastrigin", "XSquared", "StronginC3"] + ([] if cheap else ["Grishagin"]))
    elif N == 4:
        cls = rng.choice(["GKLS", "Shekel4", "Rastrigin", "XSquared"])
    else:
        cls = rng.choice(["GKLS", "Rastrigin", "XSquared"])
    if cls == "GKLS":
        args = [N, rng.randint(1, 100)]
    elif cls == "Grishagin":
        args = [rng.randint(1, 100)]
    elif cls in ("Hill", "Shekel"):
        args = [rng.randint(0, 999)]
    elif cls == "Shekel4":
        args = [rng.randint(1, 3)]
    elif cls == "StronginC3":
        args = []
    else:
        args = [N]
    return {"family": "shipped", "N": N, "cls": cls, "args": args}
