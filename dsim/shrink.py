"""Plan minimiser: delta debugging over the plan's lists + argument simplification, keeping
the same violation class (property, oracle clause)."""
import copy
import time


def _fails(suite, plan, clause):
    from .runner import run_one
    try:
        rep = run_one(suite, plan)
    except Exception:
        return False
    return any(v.clause == clause for v in rep.violations)


def _ddmin_list(get, put, plan, test, deadline):
    """Remove elements of a list while `test` keeps failing."""
    lst = list(get(plan))
    n = 2
    while len(lst) >= 1 and time.time() < deadline:
        chunk = max(1, len(lst) // n)
        removed = False
        i = 0
        while i < len(lst) and time.time() < deadline:
            cand = lst[:i] + lst[i + chunk:]
            p2 = copy.deepcopy(plan)
            put(p2, cand)
            if test(p2):
                lst = cand
                plan = p2
                removed = True
            else:
                i += chunk
        if not removed:
            if chunk == 1:
                break
            n = min(len(lst), n * 2)
        else:
            n = max(2, n - 1)
    p2 = copy.deepcopy(plan)
    put(p2, lst)
    return p2


def shrink(suite, plan, clause, budget_s=60):
    deadline = time.time() + budget_s
    count = [0]

    def test(p):
        count[0] += 1
        return _fails(suite, p, clause)

    plan = copy.deepcopy(plan)
    custom = getattr(suite, "shrink", None)
    if custom is not None:
        return custom(plan, clause, test, deadline), count[0]
    # 1. drop whole actors (with their ops)
    if isinstance(plan.get("actors"), dict):
        for aid in sorted(plan["actors"], reverse=True):
            if len(plan["actors"]) <= 1 or time.time() > deadline:
                break
            p2 = copy.deepcopy(plan)
            del p2["actors"][aid]
            p2["ops"] = [o for o in p2["ops"] if o.get("a") != aid]
            p2["nested"] = [n for n in p2.get("nested", []) if n["host"] != aid]
            for n in p2["nested"]:
                n["ops"] = [o for o in n["ops"] if o.get("a") != aid]
            p2["nested"] = [n for n in p2["nested"] if n["ops"]]
            p2["faults"] = [f for f in p2.get("faults", []) if f["a"] != aid]
            if test(p2):
                plan = p2
    # 2. faults, nested entries, ops
    for key in ("faults", "nested"):
        if plan.get(key):
            plan = _ddmin_list(lambda p, k=key: p[k], lambda p, v, k=key: p.__setitem__(k, v), plan, test, deadline)
    if plan.get("ops"):
        plan = _ddmin_list(lambda p: p["ops"], lambda p, v: p.__setitem__("ops", v), plan, test, deadline)
    for i in range(len(plan.get("nested", []))):
        plan = _ddmin_list(lambda p, i=i: p["nested"][i]["ops"], lambda p, v, i=i: p["nested"][i].__setitem__("ops", v), plan, test, deadline)
    # 3. reduce batch sizes / merge
    for i, o in enumerate(plan.get("ops", [])):
        for field in ("k", "n"):
            if field in o and isinstance(o[field], int) and o[field] > 1:
                for cand in (1, o[field] // 2, o[field] - 1):
                    if cand >= 1 and cand < plan["ops"][i][field] and time.time() < deadline:
                        p2 = copy.deepcopy(plan)
                        p2["ops"][i][field] = cand
                        if test(p2):
                            plan = p2
                            break
    # 4. lower itersLimit, drop listeners, simplify params
    for aid in sorted(plan.get("actors", {})):
        a = plan["actors"][aid]
        if "params" not in a:
            continue
        for cand in (1, 2, 3, 5, 10, 20, 40):
            if cand < a["params"].get("itersLimit", 0) and time.time() < deadline:
                p2 = copy.deepcopy(plan)
                p2["actors"][aid]["params"]["itersLimit"] = cand
                if test(p2):
                    plan = p2
                    a = plan["actors"][aid]
                    break
        if a.get("listeners"):
            plan = _ddmin_list(lambda p, aid=aid: p["actors"][aid]["listeners"],
                               lambda p, v, aid=aid: p["actors"][aid].__setitem__("listeners", v), plan, test, deadline)
        a = plan["actors"][aid]
        for field, cand in (("refineSolution", False), ("r", 2.0), ("eps", 0.01)):
            if a["params"].get(field) != cand and time.time() < deadline:
                p2 = copy.deepcopy(plan)
                p2["actors"][aid]["params"][field] = cand
                if test(p2):
                    plan = p2
        # simplify objective: fewer terms
        obj = plan["actors"][aid]["objective"]
        if obj.get("family") == "cones" and len(obj["terms"]) > 1:
            plan = _ddmin_list(lambda p, aid=aid: p["actors"][aid]["objective"]["terms"],
                               lambda p, v, aid=aid: p["actors"][aid]["objective"].__setitem__("terms", v or p["actors"][aid]["objective"]["terms"][:1]),
                               plan, test, deadline)
    if plan.get("clock", {}).get("jumps") and time.time() < deadline:
        p2 = copy.deepcopy(plan)
        p2["clock"] = {"start": 1.7e9, "eval_cost": [0.01, 0.01]}
        if test(p2):
            plan = p2
    return plan, count[0]
