"""Self-tests of the machinery: determinism (digest equality of repeated executions, fresh
interpreters, other PYTHONHASHSEED, fork vs no-fork, worker counts) and sensitivity (scripted
single-edit mutants of a scratch copy of the repo must be reported by the expected check)."""
import json
import os
import random
import shutil
import subprocess
import sys
import tempfile
import time

from . import core

ALL = ["C02", "C03", "C04", "C05", "C06", "C11", "C12", "C13", "C15", "C16", "C17", "C19", "C20"]
CHECK = os.path.join(core.VERIF_DIR, "check")


def digests(prop, n, start=0):
    """Digest of the first plan of each of n seeds (each executed in a forked child)."""
    from .suites import get_suite
    from .runner import run_one
    suite = get_suite(prop)
    out = []
    for idx in range(start, start + n):
        seed = core.derive(1, prop, "selftest", idx)
        rng = random.Random(seed)
        plan = next(iter(suite.cases(rng, "quick", seed)))
        rep = run_one(suite, plan)
        out.append((idx, core.short_hash(json.dumps(plan, sort_keys=True, default=str)), rep.digest, len(rep.violations)))
    return out


def cmd_digests(args):
    prop, n = args[0], int(args[1])
    start = int(args[2]) if len(args) > 2 else 0
    for row in digests(prop, n, start):
        print("DIGEST %s %d %s %s %d" % ((prop,) + row))
    return 0


def _sub_digests(prop, n, env_extra):
    env = dict(os.environ)
    env.update(env_extra)
    cp = subprocess.run([CHECK, "selftest", "digests", prop, str(n)], capture_output=True, text=True, env=env, timeout=1800)
    rows = [l for l in cp.stdout.splitlines() if l.startswith("DIGEST ")]
    if cp.returncode != 0 or len(rows) != n:
        raise core.HarnessError("digest subprocess failed for %s: rc=%s\n%s\n%s" % (prop, cp.returncode, cp.stdout[-1500:], cp.stderr[-1500:]))
    return rows


def cmd_determinism(args):
    n = int(args[0]) if args else 40
    props = args[1:] or ALL
    bad = 0
    t0 = time.time()
    summary = {}
    for prop in props:
        base = ["DIGEST %s %d %s %s %d" % ((prop,) + r) for r in digests(prop, n)]
        again = ["DIGEST %s %d %s %s %d" % ((prop,) + r) for r in digests(prop, n)]
        variants = {"same process, second time": again,
                    "fresh interpreter PYTHONHASHSEED=0": _sub_digests(prop, n, {"PYTHONHASHSEED": "0"}),
                    "fresh interpreter PYTHONHASHSEED=12345": _sub_digests(prop, n, {"PYTHONHASHSEED": "12345"}),
                    "fresh interpreter PYTHONHASHSEED=random": _sub_digests(prop, n, {"PYTHONHASHSEED": "random"}),
                    "fresh interpreter, no fork per run": _sub_digests(prop, n, {"PYTHONHASHSEED": "0", "VERIF_NOFORK": "1"})}
        ok = True
        for name, rows in variants.items():
            diff = [(a, b) for a, b in zip(base, rows) if a != b]
            if diff:
                ok = False
                bad += 1
                print("NONDETERMINISM %s [%s]: %d of %d differ, e.g.\n  %s\n  %s" % (prop, name, len(diff), n, diff[0][0], diff[0][1]))
        summary[prop] = ok
        print("determinism %s: %s (%d seeds x %d variants)" % (prop, "ok" if ok else "FAILED", n, len(variants)), flush=True)
    # worker-count independence of the aggregated evidence
    for prop in props[:3]:
        evs = []
        for wk in ("1", "7"):
            d = tempfile.mkdtemp(prefix="verif-ev-")
            env = dict(os.environ, VERIF_WORKERS=wk, VERIF_RUNS="48", VERIF_EVIDENCE_DIR=d)
            cp = subprocess.run([CHECK, prop, "quick"], capture_output=True, text=True, env=env, timeout=1800)
            e = json.load(open(os.path.join(d, prop + ".json")))
            shutil.rmtree(d, ignore_errors=True)
            c = e["coverage"]
            for k in ("runs_per_hour", "workers"):
                c.pop(k, None)
            evs.append((cp.returncode, c))
        if evs[0] != evs[1]:
            bad += 1
            print("NONDETERMINISM %s: evidence differs between 1 and 7 workers" % prop)
        else:
            print("worker-count independence %s: ok" % prop)
    print("determinism self-test: %s in %.0fs" % ("ok" if not bad else "%d FAILURES" % bad, time.time() - t0))
    if props == ALL:
        with open(os.path.join(core.VERIF_DIR, "evidence", "selftest-determinism.json"), "w") as f:
            json.dump({"seeds_per_suite": n, "suites": summary, "failures": bad,
                       "variants": ["same process, second time", "fresh interpreter PYTHONHASHSEED=0", "fresh interpreter PYTHONHASHSEED=12345",
                                    "fresh interpreter PYTHONHASHSEED=random", "fresh interpreter, no fork per run"],
                       "compared": "(plan hash, event-log digest, verdict) per seed; plus aggregated evidence of a check run with 1 and with 7 workers",
                       "wall_s": round(time.time() - t0, 1)}, f, indent=1)
    return 0 if not bad else 2


def cmd_smoke(args):
    """Fast sanity used by MANIFEST.setup_cmd: imports, one determinism pair per suite."""
    t0 = time.time()
    for prop in ALL:
        a = digests(prop, 2)
        b = digests(prop, 2)
        if a != b:
            print("smoke: NONDETERMINISM in %s" % prop)
            return 2
    print("smoke ok (%d suites, %.1fs)" % (len(ALL), time.time() - t0))
    return 0


# ------------------------------------------------------------------------- sensitivity

def M(file, old, new, expect, note="", count=1):
    return {"file": file, "old": old, "new": new, "expect": expect, "note": note, "count": count}


METHOD = "iOpt/method/method.py"
PROCESS = "iOpt/method/process.py"
SDATA = "iOpt/method/search_data.py"
EVOL = "iOpt/evolvent/evolvent.py"

# Two entries were retired when repo fix 12 made them equivalent (no observable effect on the current tree): returning the
# evolvent's work vector from GetImage without a copy, and the revert of fix 10 - since fix 12 every GetImage starts from a
# fresh work vector, so neither can influence a later query any more.
MUTANTS = {
    "recalc_dropped_in_CalculateM": M(METHOD, "                self.M[index] = m\n                self.recalc = True", "                self.M[index] = m", ["C02"]),
    "recalc_dropped_in_UpdateOptimum": M(METHOD, "            self.best = point\n            self.recalc = True\n            self.Z[point.GetIndex()] = point.GetZ()\n        # a locally", "            self.best = point\n            self.Z[point.GetIndex()] = point.GetZ()\n        # a locally", ["C02"]),
    "refined_optimum_replaced_by_worse_global_trial": M(METHOD, "        if reported is self.best or not reported.functionValues or \\\n                self.best.functionValues[0].value <= reported.functionValues[0].value:\n            self.searchData.solution.bestTrials[0] = self.best", "        self.searchData.solution.bestTrials[0] = self.best", ["C04"], note="revert of fix 9"),
    "right_neighbour_not_requeued": M(SDATA, "        self._RGlobalQueue.Insert(newDataItem.globalR, newDataItem)\n        if flag:\n            self._RGlobalQueue.Insert(rightDataItem.globalR, rightDataItem)\n\n    def InsertFirstDataItem", "        self._RGlobalQueue.Insert(newDataItem.globalR, newDataItem)\n\n    def InsertFirstDataItem", ["C02", "C19"]),
    "point_rule_sign_flip": M(METHOD, "            x -= 0.5 * dg * pow(", "            x += 0.5 * dg * pow(", ["C02"]),
    "point_rule_missing_r": M(METHOD, "self.task.problem.numberOfFloatVariables) / self.parameters.r", "self.task.problem.numberOfFloatVariables)", ["C02"]),
    "point_rule_exponent_1": M(METHOD, "pow(abs(dif) / self.M[v], self.task.problem.numberOfFloatVariables)", "pow(abs(dif) / self.M[v], 1)", ["C02"]),
    "M_floor_zero": M(METHOD, "self.M = [1.0 for _", "self.M = [1e-9 for _", ["C02"]),
    "stop_lt_to_le": M(METHOD, "if self.min_delta < self.parameters.eps or", "if self.min_delta <= self.parameters.eps or", ["C03"]),
    "stop_ge_to_gt": M(METHOD, "self.iterationsCount >= self.parameters.itersLimit", "self.iterationsCount > self.parameters.itersLimit", ["C03"]),
    "iters_limit_ignored": M(METHOD, "if self.min_delta < self.parameters.eps or self.iterationsCount >= self.parameters.itersLimit:", "if self.min_delta < self.parameters.eps:", ["C03"], note="non-termination within the budget: decided by the evaluation/iteration watchdog"),
    "min_delta_from_new_interval": M(METHOD, "        self.min_delta = min(old.delta, self.min_delta)\n        newx = self.CalculateNextPointCoordinate(old)", "        newx = self.CalculateNextPointCoordinate(old)\n        self.min_delta = min(pow(old.GetX() - newx, 1.0 / self.dimension), self.min_delta)", ["C03"]),
    "trial_counter_before_evaluation": M(METHOD, "        point = self.task.Calculate(point, 0)\n        point.SetZ(point.functionValues[0].value)\n        point.SetIndex(0)\n\n        # Обновление числа испытаний\n        self.searchData.solution.numberOfGlobalTrials += 1", "        self.searchData.solution.numberOfGlobalTrials += 1\n        point = self.task.Calculate(point, 0)\n        point.SetZ(point.functionValues[0].value)\n        point.SetIndex(0)", ["C16"]),
    "item_inserted_before_evaluation": M(PROCESS, "                self.method.CalculateFunctionals(newpoint)\n                self.method.UpdateOptimum(newpoint)\n                self.method.RenewSearchData(newpoint, oldpoint)", "                self.method.RenewSearchData(newpoint, oldpoint)\n                self.method.CalculateFunctionals(newpoint)\n                self.method.UpdateOptimum(newpoint)", ["C16", "C02"]),
    "except_Exception_only": M(PROCESS, "        except BaseException:", "        except Exception:", ["C16"]),
    "update_optimum_gt": M(METHOD, "point.GetZ() < self.best.GetZ()", "point.GetZ() > self.best.GetZ()", ["C04"]),
    "shared_bestTrials_default_again": M("iOpt/solution.py", "        if bestTrials is None:\n            bestTrials = [Trial([], [])]\n", "        if bestTrials is None:\n            bestTrials = Solution._DEFAULT\n", ["C12"], note="revert of fix 2 (class attribute added below)"),
    "shared_holder_default_again": M(SDATA, "        if functionValues is None:\n            functionValues = [FunctionValue()]\n", "        if functionValues is None:\n            functionValues = SearchDataItem._DEFAULT\n", ["C12"], note="revert of fix 3"),
    "solution_kept_on_the_problem_object": M(SDATA, "        self.solution = Solution(problem)", "        self.solution = problem.__dict__.setdefault('_solution', Solution(problem)) if problem is not None else Solution(problem)", ["C12"], note="state kept on the Problem: only two solvers on ONE problem object share it"),
    "dimension_kept_on_the_parameters_object": M(METHOD, "        self.dimension = task.problem.numberOfFloatVariables", "        parameters.dimension = task.problem.numberOfFloatVariables", ["C06"], note="read back through a property (APPENDIX): solvers of different dimension sharing one SolverParameters object"),
    "getresults_refreshes_the_queue": M(PROCESS, "        return self.searchData.solution\n", "        if self.searchData.GetCount() > 3:\n            self.searchData.RefillQueue()\n        return self.searchData.solution\n", ["C02", "C11"], note="a read that steers: harmless between iterations, but between taking an interval from the queue and inserting the new trial (GetResults called from inside the objective) it re-queues the interval being split"),
    "class_level_queue": M(SDATA, "        self._RGlobalQueue = CharacteristicsQueue(maxlen)\n        self.__firstDataItem", "        self._RGlobalQueue = SearchData._SHARED_Q\n        self.__firstDataItem", ["C12"]),
    "first_iteration_rerun_by_solve": M(PROCESS, "        startTime = datetime.now()\n", "        if self.__first_iteration is False:\n            self.method.FirstIteration()\n        startTime = datetime.now()\n", ["C11"], note="the commented-out block in Solve, re-enabled"),
    "nan_characteristic_reaches_the_queue": M(SDATA, "        if key != key:\n", "        if False:\n", ["C03"], note="revert of fix 14"),
    "image_expands_its_argument_in_place": M(EVOL, "        d = float(_x)\n", "        d = _x\n", ["C17"], note="revert of fix 13"),
    "image_1d_reuses_the_work_vector": M(EVOL, "            self.yValues = np.zeros(1, dtype=np.double)\n            self.yValues[0] = _x - 0.5", "            self.yValues[0] = _x - 0.5", ["C17"], note="revert of fix 12"),
    "inverse_no_copy_in": M(EVOL, "        self.yValues = np.array(y, dtype=np.double)\n        self.__TransformD2P()\n        x = self.__GetXonY()\n        return x\n\n    # ----------------------", "        self.yValues = np.asarray(y, dtype=np.double)\n        self.__TransformD2P()\n        x = self.__GetXonY()\n        return x\n\n    # ----------------------", ["C17"]),
    "setbounds_alias": M(EVOL, "        self.lowerBoundOfFloatVariables = np.copy(lowerBoundOfFloatVariables)\n        self.upperBoundOfFloatVariables = np.copy(upperBoundOfFloatVariables)\n\n    def GetImage", "        self.lowerBoundOfFloatVariables = lowerBoundOfFloatVariables\n        self.upperBoundOfFloatVariables = upperBoundOfFloatVariables\n\n    def GetImage", ["C17"]),
    "on_end_iteration_per_iteration": M(PROCESS, "                self.method.FinalizeIteration()\n\n        for listener in self.__listeners:\n            listener.OnEndIteration(savedNewPoints, self.GetResults())", "                self.method.FinalizeIteration()\n\n            for listener in self.__listeners:\n                listener.OnEndIteration(savedNewPoints, self.GetResults())", ["C13"]),
    "before_method_start_every_solve": M(PROCESS, "        startTime = datetime.now()\n", "        startTime = datetime.now()\n        for listener in self.__listeners:\n            listener.BeforeMethodStart(self.method)\n", ["C13"]),
    "dual_queue_returns_stale": M(SDATA, "        bestItem = self._RGlobalQueue.GetBestItem()\n        while bestItem[1] != bestItem[0].globalR:", "        bestItem = self._RGlobalQueue.GetBestItem()\n        while False and bestItem[1] != bestItem[0].globalR:", ["C19"]),
    "queue_min_instead_of_max": M(SDATA, "        return self.__baseQueue.popfirst()", "        return self.__baseQueue.poplast()", ["C19", "C02"]),
    "refinement_without_bounds": M(PROCESS, "options={'maxiter': self.localMethodIterationCount}, bounds=bounds)", "options={'maxiter': self.localMethodIterationCount})", ["C05"], note="revert of fix 5"),
    "image_not_clamped_to_the_box": M(EVOL, "            self.yValues[i] = min(max(value, self.lowerBoundOfFloatVariables[i]), self.upperBoundOfFloatVariables[i])", "            self.yValues[i] = value", ["C05"], note="revert of fix 11"),
    "density_ignored": M("iOpt/solver.py", "problem.numberOfFloatVariables, parameters.evolventDensity)", "problem.numberOfFloatVariables)", ["C20"], note="revert of fix 6"),
    "base_listener_signature": M("iOpt/method/listener.py", "    def OnMethodStop(self, searchData: SearchData, solution: Solution, status: bool):\n        pass\n\n    def OnRefrash", "    def OnMethodStop(self, searchData: SearchData):\n        pass\n\n    def OnRefrash", ["C13"], note="revert of fix 4"),
    "delta_against_wrong_neighbour": M(METHOD, "        newpoint.delta = Method.CalculateDelta(oldpoint.GetLeft().GetX(), newpoint.GetX(), self.dimension)", "        newpoint.delta = Method.CalculateDelta(oldpoint.GetLeft().GetX(), oldpoint.GetX(), self.dimension)", ["C06", "C02"]),
    "insert_links_wrong": M(SDATA, "        newDataItem.SetLeft(rightDataItem.GetLeft())\n        rightDataItem.SetLeft(newDataItem)\n        newDataItem.SetRight(rightDataItem)\n        newDataItem.GetLeft().SetRight(newDataItem)\n\n        self._allTrials.append(newDataItem)\n\n        self._RGlobalQueue.Insert(newDataItem.globalR, newDataItem)\n        if flag:", "        newDataItem.SetLeft(rightDataItem.GetLeft())\n        rightDataItem.SetLeft(newDataItem)\n        newDataItem.SetRight(rightDataItem)\n        if flag:\n            newDataItem.GetLeft().SetRight(newDataItem)\n\n        self._allTrials.append(newDataItem)\n\n        self._RGlobalQueue.Insert(newDataItem.globalR, newDataItem)\n        if flag:", ["C19"]),
    "gkls_memoised_by_first_call": M("iOpt/problems/GKLS.py", "        functionValue.value = self.function.Calculate(point.floatVariables)\n        return functionValue", "        key = round(float(point.floatVariables[0]), 3)\n        if key not in GKLS._memo:\n            GKLS._memo[key] = self.function.Calculate(point.floatVariables)\n        functionValue.value = GKLS._memo[key]\n        return functionValue", ["C15"]),
    "hill_normalises_argument": M("iOpt/problems/hill.py", "        res: np.double = 0\n        for i in range(hillGen.NUM_HILL_COEFF):", "        point.floatVariables[0] = point.floatVariables[0] % 1.0\n        res: np.double = 0\n        for i in range(hillGen.NUM_HILL_COEFF):", ["C15"]),
}

# class attributes needed by some mutants (appended to the mutated file)
APPENDIX = {
    "shared_bestTrials_default_again": ("iOpt/solution.py", "\n\nSolution._DEFAULT = [Trial([], [])]\n"),
    "shared_holder_default_again": (SDATA, "\n\nSearchDataItem._DEFAULT = [FunctionValue()]\nSearchData._SHARED_Q = CharacteristicsQueue(None)\n"),
    "class_level_queue": (SDATA, "\n\nSearchData._SHARED_Q = CharacteristicsQueue(None)\n"),
    "dimension_kept_on_the_parameters_object": (METHOD, "\n\nMethod.dimension = property(lambda self: self.parameters.dimension)\n"),
    "gkls_memoised_by_first_call": ("iOpt/problems/GKLS.py", "\n\nGKLS._memo = {}\n"),
}


def make_scratch():
    d = tempfile.mkdtemp(prefix="verif-mut-", dir=os.environ.get("TMPDIR", "/tmp"))
    dst = os.path.join(d, "repo")
    shutil.copytree(os.path.join(core.REPO, "iOpt"), os.path.join(dst, "iOpt"),
                    ignore=shutil.ignore_patterns("__pycache__"))
    return d, dst


def run_mutant(name, spec, budget_env=None):
    d, dst = make_scratch()
    try:
        p = os.path.join(dst, spec["file"])
        s = open(p).read()
        if s.count(spec["old"]) < 1:
            return {"name": name, "status": "patch-does-not-apply"}
        s = s.replace(spec["old"], spec["new"], spec.get("count", 1))
        if name in APPENDIX and APPENDIX[name][0] == spec["file"]:
            s += APPENDIX[name][1]
        open(p, "w").write(s)
        if name in APPENDIX and APPENDIX[name][0] != spec["file"]:
            with open(os.path.join(dst, APPENDIX[name][0]), "a") as f:
                f.write(APPENDIX[name][1])
        res = {"name": name, "expect": spec["expect"], "detected_by": [], "missed_by": [], "details": {}}
        for prop in spec["expect"]:
            env = dict(os.environ, VERIF_REPO=dst, VERIF_REPLAY_DIR=os.path.join(d, "replays"),
                       VERIF_EVIDENCE_DIR=os.path.join(d, "evidence"))
            env.update(budget_env or {})
            t0 = time.time()
            cp = subprocess.run([CHECK, prop, "quick"], capture_output=True, text=True, env=env, timeout=3600)
            lines = [l for l in cp.stdout.splitlines() if l.startswith("VIOLATION") or l.startswith("  clause=")]
            res["details"][prop] = {"rc": cp.returncode, "wall": round(time.time() - t0, 1), "lines": lines[:2],
                                    "tail": cp.stdout[-300:] if cp.returncode not in (0, 1) else ""}
            (res["detected_by"] if cp.returncode == 1 and lines else res["missed_by"]).append(prop)
        res["status"] = "detected" if res["detected_by"] else "MISSED"
        return res
    finally:
        shutil.rmtree(d, ignore_errors=True)


def cmd_sensitivity(args):
    names = args or sorted(MUTANTS)
    out = []
    missed = 0
    for name in names:
        r = run_mutant(name, MUTANTS[name])
        out.append(r)
        if r["status"] != "detected":
            missed += 1
        print("mutant %-38s %-9s detected_by=%s missed_by=%s %s" % (name, r["status"], r.get("detected_by"), r.get("missed_by"),
              {k: (v["rc"], v["wall"]) for k, v in r.get("details", {}).items()}), flush=True)
        for k, v in r.get("details", {}).items():
            if v["rc"] not in (0, 1):
                print("   ", k, v["tail"].replace("\n", " | "))
    if not args:     # a partial run must not replace the full table
        with open(os.path.join(core.VERIF_DIR, "evidence", "selftest-sensitivity.json"), "w") as f:
            json.dump(out, f, indent=1)
    print("sensitivity: %d mutants, %d not detected by any expected check" % (len(out), missed))
    return 0


def main(argv):
    if not argv:
        argv = ["smoke"]
    cmd, rest = argv[0], argv[1:]
    if cmd == "digests":
        return cmd_digests(rest)
    if cmd == "determinism":
        return cmd_determinism(rest)
    if cmd == "smoke":
        return cmd_smoke(rest)
    if cmd == "sensitivity":
        return cmd_sensitivity(rest)
    if cmd == "plan-digests":
        from .world import World
        for plan in json.load(open(rest[0])):
            print("PLANDIGEST %s" % World(plan, []).run().digest())
        return 0
    print("usage: check selftest smoke | determinism [n] [props...] | sensitivity [names...] | digests <prop> <n>")
    return 2
