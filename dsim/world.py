"""The solver-suite simulator: World, SolverActor, seams (objective, listeners, clock, fs,
stdout) and the plan executor.  The executor draws nothing: it interprets the plan.
"""
import contextlib
import datetime as _dt
import io
import os
import sys
import traceback

from . import core
from .core import HarnessError, SimFault, WatchdogStop, Violation, fhex, vhex, as_floats
from . import objectives
from .models import AGPModel

core.setup_repo_path()

import numpy as np  # noqa: E402
from iOpt.problem import Problem  # noqa: E402
from iOpt.trial import Point, FunctionValue  # noqa: E402
from iOpt.solver import Solver  # noqa: E402
from iOpt.solver_parametrs import SolverParameters  # noqa: E402
from iOpt.method import listener as L  # noqa: E402
import iOpt.method.process as _process_mod  # noqa: E402

core.assert_repo_import()


def _warm_matplotlib():
    """Resolve matplotlib's lazy backend selection and font cache once, in the parent, so that
    forked runs do not pay for it (no code under test is executed here)."""
    import matplotlib
    matplotlib.use("Agg", force=True)
    import matplotlib.pyplot as plt
    plt.switch_backend("Agg")
    fig, ax = plt.subplots()
    ax.plot([0, 1], [0, 1])
    ax.set_title("warm")
    fig.canvas.draw()
    plt.close(fig)
    matplotlib.rcdefaults()


_warm_matplotlib()

INF = float("inf")


# ------------------------------------------------------------------------------- seams

class Call:
    __slots__ = ("seq", "idx", "y", "value", "phase", "fault", "completed", "op_no", "in_box")

    def __init__(self, seq, idx, y, phase, op_no):
        self.seq = seq
        self.idx = idx          # 1-based index among this actor's non-probe calls (0 for probes)
        self.y = y
        self.value = None
        self.phase = phase      # global | local | probe | pending | global_failed | global_extra | foreign
        self.fault = None
        self.completed = False
        self.op_no = op_no


class SimProblem(Problem):
    """The objective seam: the library's own extension point (a Problem subclass)."""

    def __init__(self, actor):
        super().__init__()
        self._actor = actor
        spec = actor.spec
        N = actor.N
        self.numberOfFloatVariables = N
        self.dimension = N
        self.numberOfDisreteVariables = int(spec.get("n_discrete", 0))
        if self.numberOfDisreteVariables:
            self.discreteVariableNames = np.array(["d%d" % i for i in range(self.numberOfDisreteVariables)])
            self.discreteVariableValues = [["A", "B"] for _ in range(self.numberOfDisreteVariables)]
        self.numberOfObjectives = 1
        self.numberOfConstraints = 0
        self.floatVariableNames = np.array([str(i) for i in range(N)])
        bt = spec.get("bounds_type", "float_array")
        if bt == "int_list":
            self.lowerBoundOfFloatVariables = [int(v) for v in actor.lower]
            self.upperBoundOfFloatVariables = [int(v) for v in actor.upper]
        elif bt == "int_array":
            self.lowerBoundOfFloatVariables = np.array([int(v) for v in actor.lower])
            self.upperBoundOfFloatVariables = np.array([int(v) for v in actor.upper])
        elif bt == "float_list":
            self.lowerBoundOfFloatVariables = [float(v) for v in actor.lower]
            self.upperBoundOfFloatVariables = [float(v) for v in actor.upper]
        else:
            self.lowerBoundOfFloatVariables = np.array(actor.lower, dtype=np.double)
            self.upperBoundOfFloatVariables = np.array(actor.upper, dtype=np.double)
        self.knownOptimum = []

    def Calculate(self, point, functionValue):
        return self._actor.on_objective_call(point, functionValue)

    def __deepcopy__(self, memo):
        return self          # the problem is the user's object: a checkpoint of the solver refers to the same problem


class SharedSimProblem(SimProblem):
    """ONE Problem object handed to several solvers (parameter studies on one problem): the call is attributed to
    the solver whose operation is executing (the simulator runs one operation at a time, re-entrant ones on a stack)."""

    def __init__(self, actor, world):
        super().__init__(actor)
        self._world = world

    def Calculate(self, point, functionValue):
        for a in reversed(self._world.exec_stack):
            if a.problem is self:
                return a.on_objective_call(point, functionValue)
        raise HarnessError("shared problem evaluated while none of its solvers is executing an operation")


class SimClock:
    """Simulated wall clock.  Advances only when the simulation says so."""

    def __init__(self, spec):
        spec = spec or {}
        self.start = float(spec.get("start", 1.7e9))
        self.now = self.start
        lo, hi = spec.get("eval_cost", [0.01, 0.01])
        self.lo, self.hi = float(lo), float(hi)
        self.jumps = {int(j["at_call"]): float(j["by"]) for j in spec.get("jumps", [])}
        self.ncalls = 0
        self.n_jumps = 0

    def on_eval(self):
        self.ncalls += 1
        frac = (self.ncalls * 0.6180339887498949) % 1.0
        self.now += self.lo + (self.hi - self.lo) * frac
        if self.ncalls in self.jumps:
            self.now += self.jumps[self.ncalls]
            self.n_jumps += 1

    def elapsed(self):
        return self.now - self.start


def _make_fake_datetime(clock):
    class FakeDatetime:
        @staticmethod
        def now(tz=None):
            return _dt.datetime.fromtimestamp(clock.now, tz=_dt.timezone.utc)
    return FakeDatetime


class FakeFS:
    """In-memory stand-in for the painter modules' `os` and for pyplot.savefig/show."""

    def __init__(self, world):
        self.world = world
        self.dirs = set()
        self.files = []

        fs = self

        class _Path:
            curdir = os.path.curdir

            @staticmethod
            def isdir(p):
                return p in fs.dirs

        class _OS:
            path = _Path

            @staticmethod
            def mkdir(p):
                fs.dirs.add(p)
                fs.world.log("fs", "-", "mkdir " + str(p))
        self.os = _OS

    def savefig(self, name, *a, **k):
        self.files.append(str(name))
        self.world.log("fs", "-", "savefig " + str(name))

    def show(self, *a, **k):
        self.world.log("fs", "-", "show")


# --------------------------------------------------------------------------- listeners

class _Bracket(L.Listener):
    """Passive phase-bracketing listener pair placed first/last in the listener list."""

    def __init__(self, actor, opening):
        self.actor = actor
        self.opening = opening

    def __deepcopy__(self, memo):
        return self

    def BeforeMethodStart(self, method):
        self.actor.on_bracket("BeforeMethodStart", self.opening, (method,))

    def OnEndIteration(self, savedNewPoints, solution):
        self.actor.on_bracket("OnEndIteration", self.opening, (savedNewPoints, solution))

    def OnMethodStop(self, searchData, solution, status):
        self.actor.on_bracket("OnMethodStop", self.opening, (searchData, solution, status))


def make_recording_listener(actor, lid, overrides, via="direct"):
    """Subclass of the base Listener overriding exactly `overrides` with call-site signatures.
    via: direct (callbacks in the class body) | inherited (defined in an intermediate class, the attached object's
    class has an empty body) | mixin (callbacks come from a mixin listed before Listener) | console (subclass of the
    shipped ConsoleFullOutputListener: the overridden callbacks record, then call the shipped implementation)."""
    ns = {"__deepcopy__": lambda self, memo: self}
    if via == "console":
        def _rec2(name):
            def cb(self, *args):
                actor.on_user_callback(lid, name, args)
                return getattr(L.ConsoleFullOutputListener, name)(self, *args)
            cb.__name__ = name
            return cb
        for name in overrides:
            ns[name] = _rec2(name)
        cls = type("MyConsole", (L.ConsoleFullOutputListener,), ns)
        return cls(mode="result")

    def _rec(name):
        def cb(self, *args):
            actor.on_user_callback(lid, name, args)
        cb.__name__ = name
        return cb
    for name in overrides:
        ns[name] = _rec(name)
    name = "Recording_" + "_".join(sorted(n[:2] + n[-4:] for n in overrides)) or "Recording_none"
    if via == "router":
        # on BeforeMethodStart this listener attaches a child listener to its solver (a router that picks a logger once it
        # sees the problem): the child is attached before the first trial and is owed the full contract
        child_lid = lid + 100

        def bms(self, *args):
            actor.on_user_callback(lid, "BeforeMethodStart", args)
            if not getattr(self, "_attached", False):
                self._attached = True
                actor.solver.AddListener(make_recording_listener(actor, child_lid, ["BeforeMethodStart", "OnEndIteration", "OnMethodStop"]))
                actor.world.fired["listener_attached_from_inside_BeforeMethodStart"] += 1
        ns["BeforeMethodStart"] = bms
    if via == "eq":
        # value semantics: every instance of this class compares equal to every other (a dataclass-like recorder)
        ns["__eq__"] = lambda self, other: type(other).__name__ == type(self).__name__
        ns["__hash__"] = lambda self: 7
    if via == "inherited":
        base = type(name + "_Base", (L.Listener,), ns)
        cls = type(name, (base,), {})
    elif via == "mixin":
        mix = type(name + "_Mixin", (object,), ns)
        cls = type(name, (mix, L.Listener), {})
    else:
        cls = type(name, (L.Listener,), ns)
    return cls()


def make_shipped_listener(spec):
    k = spec["kind"]
    if k == "console":
        return L.ConsoleFullOutputListener(mode=spec.get("mode", "full"), iters=spec.get("iters", 100))
    if k == "static":
        return L.StaticPaintListener(spec.get("file", "s.png"), spec.get("path", ""), spec.get("indx", 0),
                                     spec.get("bottom", False), spec.get("mode", "objective function"))
    if k == "staticND":
        return L.StaticNDPaintListener(spec.get("file", "nd.png"), spec.get("path", ""), list(spec.get("vars", [0, 1])),
                                       spec.get("mode", "lines layers"), spec.get("calc", "objective function"))
    if k == "anim":
        return L.AnimationPaintListener(spec.get("file", "a.png"), spec.get("path", ""), spec.get("bottom", False),
                                        spec.get("obj", True))
    if k == "animND":
        return L.AnimationNDPaintListener(spec.get("file", "and.png"), spec.get("path", ""),
                                          list(spec.get("vars", [0, 1])), spec.get("obj", True))
    raise HarnessError("unknown listener kind %r" % k)


# ------------------------------------------------------------------------------- actor

class SolverActor:
    def __init__(self, world, aid, spec):
        self.world = world
        self.aid = aid
        self.spec = spec
        obj = spec["objective"]
        self.N = int(obj["N"])
        self.shipped = obj["family"] == "shipped"
        self.f = objectives.build(obj)          # evaluated by the seam
        self.f_side = objectives.build(obj)     # oracle side channel (separate instance)
        if self.shipped:
            p = self.f.problem
            self.lower = [float(v) for v in p.lowerBoundOfFloatVariables]
            self.upper = [float(v) for v in p.upperBoundOfFloatVariables]
        else:
            self.lower = [float(v) for v in spec["lower"]]
            self.upper = [float(v) for v in spec["upper"]]
        self.params = dict(spec["params"])
        self.brackets = spec.get("brackets", True)
        self.problem = None
        self.solver = None
        self.created = False
        self.construct_error = None
        # logs
        self.calls = []
        self.n_real_calls = 0      # non-probe calls
        self.cb_events = []        # (seq, lid, name, payload)  user-listener notifications
        self.bracket_events = []   # (seq, name, info)
        self.op_no = 0
        self.cur_op = None
        self.cb_depth = 0
        self.shadow = False
        self.active = False
        self.solutions = []        # snapshots of Solutions handed to the user by Solve / results
        # trial tracking
        self.trials = []           # (x, z, y) in evaluation order
        self.model = AGPModel(self.N, self.params["r"])
        self.model_issues = []     # (trial_no, clause, msg)
        self.known_items = {}      # id(item) -> item (keeps refs alive)
        self.synced_calls = 0
        self.desync = None
        self.delivered = []        # items delivered through OnEndIteration since the last sync
        self.notified = []         # (op_no, point) of every item ever delivered through OnEndIteration
        self.aborted = None        # reason the actor stopped being driven (exhausted, op_raised, ...)
        self.solve_info = []       # per solve op: dict
        self.exhausted = False
        self.faults = []
        self.fired_faults = []
        self.persist_fault = None
        self.cb_count = {}
        self.late_listeners = []
        self.ucb_count = {}
        self.fired_lfaults = []
        self.solve_budget = None
        self.solve_evals = 0
        self.solve_iters = 0
        self.solve_over_budget = False

    # -- creation
    def create(self):
        w = self.world
        try:
            pshare = self.spec.get("problem_obj")
            if pshare and pshare in w.shared_problems:
                self.problem = w.shared_problems[pshare]
                have = ([float(v) for v in self.problem.lowerBoundOfFloatVariables], [float(v) for v in self.problem.upperBoundOfFloatVariables])
                if have != (self.lower, self.upper) and id(self.problem) not in w.moved_boxes:
                    # nobody but the library can have done this: the caller's Problem no longer has the box it was given
                    w.flag(w.plan.get("property", "?"), "shared_problem_modified", "the public bounds of the Problem object that %s is about to be "
                           "built on were changed from %r to %r - not by the caller" % (self.aid, (self.lower, self.upper), have), "create")
                    self.lower, self.upper = have
                elif have != (self.lower, self.upper):
                    raise HarnessError("inconsistent plan: %s expects the shared Problem's box to be %r, it is %r" % (self.aid, (self.lower, self.upper), have))
                w.fired["solver_on_shared_problem_object"] += 1
            elif pshare:
                self.problem = w.shared_problems[pshare] = SharedSimProblem(self, w)
            else:
                self.problem = SimProblem(self)
            p = self.params
            share = self.spec.get("params_obj")
            if share == "default":
                # Solver(problem) without a parameters argument: the library's shared default object
                self.parameters = None
                w.fired["solver_on_default_parameters_object"] += 1
                self.solver = Solver(self.problem)
            else:
                if share and share in w.shared_params:
                    self.parameters = w.shared_params[share]     # one SolverParameters object used for several solvers
                    w.fired["solver_on_shared_parameters_object"] += 1
                    for fld in ("eps", "r", "itersLimit", "refineSolution"):
                        # the object may have been edited since the plan was written (setp on a sharing solver)
                        self.params[fld] = type(self.params.get(fld, 0.0))(getattr(self.parameters, fld)) if fld != "refineSolution" \
                            else bool(getattr(self.parameters, fld))
                    self.model.r = float(self.params["r"])
                else:
                    dens = p.get("evolventDensity", 10)
                    dt = self.spec.get("density_type")
                    if dt == "np.int64":
                        dens = np.int64(dens)
                    elif dt == "np.int32":
                        dens = np.int32(dens)
                    rt = self.spec.get("r_type")
                    rr = p["r"] if rt is None else (np.float64(p["r"]) if rt == "np.float64" else np.array(float(p["r"])))
                    kw = dict(eps=p.get("eps", 0.01), r=rr, itersLimit=p.get("itersLimit", 20000), evolventDensity=dens,
                              refineSolution=p.get("refineSolution", False))
                    if "epsR" in p:
                        # a parameter of the constrained-problem scheme, unused on the problems this version solves:
                        # whatever its value, nothing may depend on it
                        kw["epsR"] = p["epsR"]
                        w.fired["epsR_given"] += 1
                    src = self.spec.get("start_point_from")
                    if src and src in w.actors and w.actors[src].created and w.actors[src].aborted is None:
                        try:
                            other = w.actors[src].solver.GetResults().bestTrials[0].point
                            if len(other.floatVariables) == self.N:
                                kw["startPoint"] = other       # the very Point object another solver reported (no copy)
                                w.fired["start_point_is_another_solvers_point_object"] += 1
                        except BaseException:
                            pass
                    elif self.spec.get("start_point") is not None:
                        # the documented startPoint parameter (the method ignores it at this commit)
                        kw["startPoint"] = Point(np.array(self.spec["start_point"], dtype=np.double), [])
                    if self.spec.get("params_set") == "positional" and "startPoint" not in kw:
                        # the first four parameters written positionally: SolverParameters(eps, r, itersLimit, evolventDensity)
                        self.parameters = SolverParameters(kw["eps"], kw["r"], kw["itersLimit"], kw["evolventDensity"],
                                                           refineSolution=kw["refineSolution"])
                        w.fired["parameters_given_positionally"] += 1
                    elif self.spec.get("params_set") == "attr":
                        # the user builds a default object and then assigns its public fields
                        self.parameters = SolverParameters()
                        for k2, v2 in kw.items():
                            setattr(self.parameters, k2, v2)
                        w.fired["parameters_set_by_attribute_assignment"] += 1
                    else:
                        self.parameters = SolverParameters(**kw)
                    if share:
                        w.shared_params[share] = self.parameters
                self.solver = Solver(self.problem, parameters=self.parameters)
            self.listeners = []
            if self.brackets:
                self.solver.AddListener(_Bracket(self, True))
            for i, ls in enumerate(self.spec.get("listeners", [])):
                if ls["kind"] == "recording":
                    lst = make_recording_listener(self, i, ls["overrides"], ls.get("via", "direct"))
                elif ls.get("shared") and ls["shared"] in w.shared_listeners:
                    lst = w.shared_listeners[ls["shared"]]        # ONE listener object attached to several solvers
                    w.fired["listener_object_attached_to_several_solvers"] += 1
                else:
                    lst = make_shipped_listener(ls)
                    if ls.get("shared"):
                        w.shared_listeners[ls["shared"]] = lst
                self.listeners.append(lst)
                self.solver.AddListener(lst)
            if self.brackets:
                self.solver.AddListener(_Bracket(self, False))
            self.created = True
        except HarnessError:
            raise
        except BaseException as e:  # the library refused to construct a solver
            _reraise_if_harness(e)
            self.construct_error = "%s: %s" % (type(e).__name__, e)
            self.aborted = "construct"
            w.log("construct_raised", self.aid, self.construct_error)

    def query_search_data(self, op):
        """The user READS the solver's search information (public attribute, handed to listeners): which interval covers a
        point, or a walk that is abandoned half-way.  Reads must not steer the search."""
        sd = self.solver.searchData
        q = op["q"]
        self.world.fired["search_data_read_" + q] += 1
        try:
            n = sd.GetCount()
        except BaseException:
            return None
        if n < 2:
            return None
        if q == "refill":
            # the public, idempotent rebuild of the characteristics queue from the items' current characteristics
            sd.RefillQueue()
            r = None
        elif q == "find":
            it = sd.FindDataItemByOneDimensionalPoint(float(op["x"]))
            r = float(it.GetX()) if it is not None else None
        else:
            r = None
            for j, it in enumerate(sd):
                if j >= int(op.get("stop", 1)):
                    r = float(it.GetX())
                    break
        self.world.log("sdq", self.aid, "%s -> %s" % (q, fhex(r) if r is not None else None))
        return r

    def query_evolvent(self, op):
        """The user reads the solver's own evolvent (public attribute; a Listener receives it through
        BeforeMethodStart(method)): image / inverse-image queries are pure (C17), so they are legal at any moment."""
        ev = self.solver.evolvent
        q = op["q"]
        self.world.fired["evolvent_query_" + q] += 1
        if q == "setbounds_same":
            # re-stating the box the evolvent already has (a harmless call: nothing may change)
            lo_, up_ = getattr(self, "ev_box", None) or (self.lower, self.upper)
            ev.SetBounds(np.array(lo_, dtype=np.double), np.array(up_, dtype=np.double))
            self.world.log("evq", self.aid, "setbounds_same")
            return None
        if q == "setbounds_inner":
            # the user narrows the box of THIS solver's evolvent (a public call; whatever it does to this solver's own
            # search, it must not reach any other solver - not even one built on the same Problem object)
            ev.SetBounds(np.array(op["lower"], dtype=np.double), np.array(op["upper"], dtype=np.double))
            self.ev_box = (list(op["lower"]), list(op["upper"]))      # (what "re-stating the box" means from now on)
            self.world.log("evq", self.aid, "setbounds_inner")
            return None
        if q == "image":
            r = ev.GetImage(float(op["x"]))
            self.world.log("evq", self.aid, "image %s -> %s" % (fhex(op["x"]), vhex(r)))
            return as_floats(r)
        how = op.get("as", "array")
        if how == "best":
            # the live array of the current best point (a listener mapping the optimum back onto the curve)
            try:
                arg = self.solver.GetResults().bestTrials[0].point.floatVariables
                len(arg)
            except BaseException:
                return None
            if len(arg) != self.N:
                return None
            r = (ev.GetInverseImage if q == "inverse" else ev.GetPreimages)(arg)
            self.world.log("evq", self.aid, "%s best -> %s" % (q, fhex(r)))
            return float(r)
        if how == "int_list":
            arg = [int(v) for v in op["y"]]
        elif how == "int_array":
            arg = np.array([int(v) for v in op["y"]])
        elif how == "f32":
            arg = np.array(op["y"], dtype=np.float32)
        elif how == "list":
            arg = [float(v) for v in op["y"]]
        else:
            arg = np.array(op["y"], dtype=np.double)
        r = (ev.GetInverseImage if q == "inverse" else ev.GetPreimages)(arg)
        self.world.log("evq", self.aid, "%s %s -> %s" % (q, how, fhex(r)))
        return float(r)

    # -- objective seam
    def on_objective_call(self, point, functionValue):
        w = self.world
        try:
            y = as_floats(point.floatVariables)
        except Exception as e:
            raise HarnessError("objective called with unreadable point: %r" % (e,))
        if self.cb_depth > 0 or self.shadow:
            phase = "probe"
        elif self.cur_op == "iterate":
            phase = "global"
        elif self.cur_op == "solve":
            phase = "pending"
        elif self.cur_op == "refine":
            phase = "local"
        elif not self.brackets and self.cur_op is not None:
            phase = "unclassified"
        else:
            phase = "foreign"
        if not self.brackets and phase == "pending":
            # no phase information from callbacks: with refinement off every call of a Solve is a global trial
            phase = "unclassified" if self.params.get("refineSolution") else "global"
        idx = 0
        if phase != "probe":
            self.n_real_calls += 1
            idx = self.n_real_calls
        c = Call(w.next_seq(), idx, y, phase, self.op_no)
        self.calls.append(c)
        w.clock.on_eval()
        # budget watchdog (C03 bounded liveness): a Solve may not evaluate more than its budget
        if phase != "probe" and self.cur_op == "solve" and self.solve_budget is not None \
                and not self.params.get("refineSolution"):
            self.solve_evals += 1
            if self.solve_evals > self.solve_budget:
                c.fault = "watchdog"
                w.log("eval", self.aid, "%d %s %s WATCHDOG" % (idx, phase, vhex(y)))
                self.solve_over_budget = True
                raise WatchdogStop("evaluation budget exceeded")
        # nested (re-entrant) ops of other actors
        if phase != "probe":
            nested = w.nested_eval.get((self.aid, idx))
            if nested:
                w.fired["obj_reenter"] += 1
                w.exec_nested(nested, self)
        # faults
        fault = None
        if phase != "probe":
            if self.persist_fault is not None:
                fault = self.persist_fault
            else:
                for ft in self.faults:
                    if ft["at_eval"] == idx:
                        fault = ft
                        if ft.get("persistent"):
                            self.persist_fault = ft
        try:
            v = self.f(y)
        except FloatingPointError as e:
            # the objective's own numpy arithmetic (family npenv) failed: the process-wide numpy error mode is no longer
            # the default one.  For the solver this is an objective failure like any other.
            c.fault = "numpy_error_mode"
            w.fired["objective_met_a_changed_numpy_error_mode"] += 1
            w.log("eval", self.aid, "%d %s %s RAISE FloatingPointError (environment)" % (idx, phase, vhex(y)))
            _INJECTED.append(e)
            raise
        self.holder_before = getattr(functionValue, "value", 0.0)
        if fault is not None:
            c.fault = fault["exc"]
            self.fired_faults.append((idx, fault["exc"], fault.get("when", "before")))
            w.fired["obj_raise:" + fault["exc"]] += 1
            w.fired["obj_raise_" + fault.get("when", "before")] += 1
            if fault.get("when", "before") == "after":
                functionValue.value = v
            w.log("eval", self.aid, "%d %s %s RAISE %s%s" % (idx, phase, vhex(y), fault["exc"], " noargs" if fault.get("noargs") else ""))
            if fault.get("strict_warnings") and getattr(w, "_strict_cw", None) is None:
                # ambient fault: the process runs with warnings configured as errors (python -W error, pytest's
                # filterwarnings=error) from the moment of the failure until the driver op returns
                import warnings as _wn
                w._strict_cw = _wn.catch_warnings()
                w._strict_cw.__enter__()
                _wn.simplefilter("error")
                w.fired["warnings_as_errors_while_failure_is_handled"] += 1
            if fault["exc"] == "LibraryIndexError":
                # a failure that is RAISED INSIDE LIBRARY CODE: the user's objective wraps a shipped benchmark and hands it
                # a point with a coordinate missing - the IndexError's innermost frame lies in iOpt/problems/rastrigin.py
                from iOpt.problems.rastrigin import Rastrigin as _R
                from iOpt.trial import Point as _P, FunctionValue as _FV
                try:
                    _R(2).Calculate(_P([0.0], []), _FV())
                except IndexError as exc:
                    _INJECTED.append(exc)
                    raise
                raise HarnessError("Rastrigin(2) accepted a one-coordinate point")
            if fault.get("noargs"):
                exc = core.EXC_KINDS[fault["exc"]]()       # e.g. a bare `raise KeyboardInterrupt`, an assert without message
                w.fired["obj_raise_noargs"] += 1
            else:
                exc = core.EXC_KINDS[fault["exc"]]("injected fault at evaluation %d" % idx)
            _INJECTED.append(exc)
            raise exc
        c.value = v
        c.completed = True
        vt = self.spec.get("value_type")
        tv = v if vt is None else (np.float64(v) if vt == "np.float64" else np.array(v))
        functionValue.value = tv
        w.log("eval", self.aid, "%d %s %s %s" % (idx, phase, vhex(y), fhex(v)))
        for mon in w.monitors:
            mon.on_eval(w, self, c)
        if self.spec.get("holder") == "new" and phase != "probe":
            # a Problem that returns its result in a NEW FunctionValue (legal by the signature
            # Calculate(point, functionValue) -> FunctionValue); the holder it was given keeps its old content
            functionValue.value = self.holder_before
            nv = FunctionValue(functionValue.type, functionValue.functionID)
            nv.value = tv
            w.fired["objective_returns_new_holder"] += 1
            return nv
        return functionValue

    # -- listener seams
    def on_bracket(self, name, opening, args):
        w = self.world
        if self.shadow:
            return       # the kept original of a fork is running: not this actor's notifications
        if opening:
            self.cb_depth = 1
            self.cb_count[name] = self.cb_count.get(name, 0) + 1
            seq = w.next_seq()
            info = None
            if name == "OnEndIteration":
                # all pending calls of a running Solve are now known to be global trials
                for c in self.calls:
                    if c.phase == "pending":
                        c.phase = "global"
                try:
                    items = list(args[0])
                except Exception:
                    items = []
                self.delivered.extend(items)
                info = len(items)
                for it in items:
                    self.notified.append((self.op_no, _item_point(it)))
            elif name == "OnMethodStop":
                self._resolve_pending()
            self.bracket_events.append((seq, name, info))
            w.log("cb", self.aid, "%s %s" % (name, info))
            for mon in w.monitors:
                mon.on_callback(w, self, name, args)
            nested = w.nested_cb.get((self.aid, name, self.cb_count[name]))
            if nested:
                w.fired["listener_reenter"] += 1
                w.exec_nested(nested, self)
            if name == "OnEndIteration" and self.cur_op == "solve" and self.solve_budget is not None:
                self.solve_iters += 1
                if self.solve_iters > self.solve_budget:
                    self.solve_over_budget = True
                    self.cb_depth = 0
                    w.log("watchdog", self.aid, "iteration budget exceeded")
                    raise WatchdogStop("iteration budget exceeded")
        else:
            self.cb_depth = 0

    def on_user_callback(self, lid, name, args):
        w = self.world
        seq = w.next_seq()
        payload = None
        try:
            if name == "OnEndIteration":
                payload = {"xs": [float(it.GetX()) for it in args[0]], "nargs": len(args),
                           "ys": [as_floats(it.GetY().floatVariables) for it in args[0]],
                           "zs": [float(it.GetZ()) for it in args[0]]}
            elif name == "OnMethodStop":
                payload = {"nargs": len(args), "sol": read_solution(args[1]) if len(args) > 1 else None,
                           "status": bool(args[2]) if len(args) > 2 else None}
            else:
                payload = {"nargs": len(args)}
        except BaseException as e:
            payload = {"error": repr(e)}
        payload["n_calls_before"] = self.n_real_calls
        self.cb_events.append((seq, lid, name, payload))
        w.log("ucb", self.aid, "%d %s %s" % (lid, name, _jsonish(payload)))
        if not self.brackets:
            for mon in w.monitors:
                mon.on_callback(w, self, name, args)
        self.ucb_count[(lid, name)] = self.ucb_count.get((lid, name), 0) + 1
        for lf in w.lfaults.get(self.aid, []):
            if lf["cb"] == name and int(lf.get("lid", lid)) == lid and int(lf["index"]) == self.ucb_count[(lid, name)]:
                # the user's listener fails: the library lets the exception travel (DoGlobalIteration) or contains it (Solve)
                self.cb_depth = 0          # the notification loop is being abandoned: the closing bracket will not run
                exc = core.EXC_KINDS[lf.get("exc", "ValueError")]("injected fault in listener %d %s #%d" % (lid, name, lf["index"]))
                _INJECTED.append(exc)
                self.fired_lfaults.append((lid, name, lf["index"], self.op_no))
                w.fired["listener_raise:" + name] += 1
                w.log("ucb_raise", self.aid, "%d %s %s" % (lid, name, lf.get("exc", "ValueError")))
                raise exc

    def _resolve_pending(self):
        refine = bool(self.params.get("refineSolution", False))
        for c in self.calls:
            if c.phase == "pending":
                if c.fault is not None:
                    c.phase = "global_failed"
                elif refine:
                    c.phase = "local"
                else:
                    c.phase = "global_extra"

    # -- views for the oracles
    def global_calls(self, completed_only=True):
        return [c for c in self.calls if c.phase in ("global", "global_extra") and (c.completed or not completed_only)]

    def local_calls(self):
        return [c for c in self.calls if c.phase == "local"]

    def real_calls(self):
        return [c for c in self.calls if c.phase != "probe"]

    def walk(self, limit=None):
        """Public iteration over the solver's search data (guarded against cycles)."""
        if self.solver is None:
            return []
        sd = self.solver.searchData
        out = []
        cap = (limit or (len(self.calls) + 16)) + 8
        try:
            it = iter(sd)
        except BaseException as e:
            _reraise_if_harness(e)
            return out
        for item in it:
            out.append(item)
            if len(out) > cap:
                break
        return out

    def sync(self):
        """Pull the trials evaluated since the last sync into self.trials (in evaluation
        order, validated against the objective log) and run the AGP model over them."""
        if not self.created or self.desync or self.solver is None:
            return
        newcalls = [c for c in self.calls[self.synced_calls:] if c.phase in ("global", "global_extra") and c.completed]
        self.synced_calls = len(self.calls)
        items = self.walk()
        new_items = [it for it in items if id(it) not in self.known_items]
        # the two end points are not trials
        if items:
            ends = {id(items[0]), id(items[-1])}
        else:
            ends = set()
        for it in new_items:
            self.known_items[id(it)] = it
        new_inner = [it for it in new_items if id(it) not in ends]
        delivered, self.delivered = self.delivered, []
        if not newcalls and not new_inner:
            return
        def cands():
            tail = getattr(self.solver.searchData, "_allTrials", None)
            ids = {id(it) for it in new_inner}
            if isinstance(tail, list):
                yield [it for it in tail if id(it) in ids]
            yield [it for it in delivered if id(it) in ids]
            yield _greedy_match(new_inner, newcalls)      # quadratic: only reached when the cheaper orders do not fit
        chosen = None
        # local refinement rewrites the point of the then-best item in place: tolerate one such
        # item per refinement performed, provided its stored point is one refinement evaluated
        refined_pts = {c.y for c in self.calls if c.phase == "local"}
        allowed = len({c.op_no for c in self.calls if c.phase == "local"})
        for cand in cands():
            if cand is None or not (len(cand) == len(newcalls) == len(new_inner)):
                continue
            bad = [it for it, c in zip(cand, newcalls) if not _same_point(it, c.y)]
            if len(bad) <= allowed and all(_item_point(it) in refined_pts for it in bad):
                chosen = cand
                break
        if chosen is None:
            self.desync = "search data and objective log disagree: %d new items, %d new completed global calls" % (
                len(new_inner), len(newcalls))
            self.world.log("desync", self.aid, self.desync)
            return
        for it, c in zip(chosen, newcalls):
            x = float(it.GetX())
            self.trials.append((x, c.value, c.y))
            for clause, msg in self.model.step(x, c.value):
                self.model_issues.append((len(self.trials), clause, msg))


def _same_point(item, y):
    try:
        fv = item.GetY().floatVariables
        return len(fv) == len(y) and all(float(a) == b for a, b in zip(fv, y))
    except Exception:
        return False


def _item_point(item):
    try:
        return as_floats(item.GetY().floatVariables)
    except Exception:
        return None


def _greedy_match(items, calls):
    if len(items) != len(calls):
        return None
    pool = list(items)
    out = []
    for c in calls:
        hit = None
        for it in pool:
            if _same_point(it, c.y):
                hit = it
                break
        if hit is None:
            return None
        pool.remove(hit)
        out.append(hit)
    return out


def _jsonish(d):
    return ",".join("%s=%s" % (k, d[k]) for k in sorted(d) if k != "solution_id")


def _innermost_file(e):
    tb = e.__traceback__
    last = None
    while tb is not None:
        last = tb.tb_frame.f_code.co_filename
        tb = tb.tb_next
    return last or ""


_INJECTED = []      # exception objects raised by the seam (kept alive: recognised by identity)


def is_injected(e):
    if isinstance(e, SimFault) or any(e is x for x in _INJECTED):
        return True
    a = getattr(e, "args", None)
    return bool(a) and isinstance(a[0], str) and a[0].startswith("injected fault")


def _reraise_if_harness(e):
    """An exception whose innermost frame is verif code (and that is not an injected fault)
    is a bug of the machinery, not a finding."""
    if isinstance(e, HarnessError):
        raise e
    if isinstance(e, WatchdogStop) or is_injected(e):
        return
    f = os.path.abspath(_innermost_file(e))
    if f.startswith(core.VERIF_DIR + os.sep):
        raise HarnessError("exception inside verification code: %s" % "".join(
            traceback.format_exception(type(e), e, e.__traceback__))) from e


# ------------------------------------------------------------------------------- world

class Monitor:
    """Oracle hook points.  Monitors record violations via world.flag; they never raise."""
    def on_eval(self, w, actor, call): pass
    def on_callback(self, w, actor, name, args): pass
    def on_op_end(self, w, actor, op, outcome): pass
    def on_finish(self, w): pass


class World:
    def __init__(self, plan, monitors=()):
        self.plan = plan
        self.seq = 0
        self.events = []
        self.violations = []
        self.monitors = list(monitors)
        self.clock = SimClock(plan.get("clock"))
        self.fs = FakeFS(self)
        self.actors = {}
        # solvers given ONE SolverParameters object necessarily have the same parameter values: the group's values are
        # those of its first member (generators and the shrinker may have edited one member only)
        groups = {}
        for aid in sorted(plan["actors"]):
            g = plan["actors"][aid].get("params_obj")
            if g and g.startswith("shared:"):
                if g in groups:
                    plan["actors"][aid]["params"] = dict(plan["actors"][groups[g]]["params"])
                else:
                    groups[g] = aid
        for aid in sorted(plan["actors"]):
            self.actors[aid] = SolverActor(self, aid, plan["actors"][aid])
        self.shared_params = {}
        self.shared_problems = {}
        self.moved_boxes = set()       # id() of the Problem objects whose box the CALLER has changed (op narrow_box)
        self.shared_listeners = {}
        self.exec_stack = []
        self.nested_eval = {}
        self.nested_cb = {}
        for n in plan.get("nested", []):
            if n["at"] == "eval":
                self.nested_eval[(n["host"], int(n["index"]))] = n["ops"]
            else:
                self.nested_cb[(n["host"], n["at"], int(n["index"]))] = n["ops"]
        for ft in plan.get("faults", []):
            self.actors[ft["a"]].faults.append(ft)
        self.lfaults = {}
        for lf in plan.get("lfaults", []):
            self.lfaults.setdefault(lf["a"], []).append(lf)
        from collections import Counter
        self.fired = Counter()
        self.inconclusive = Counter()
        self.stack = []
        self.stdout_chunks = []
        self.depth = 0
        self.n_ops = 0
        self.sig = []

    def next_seq(self):
        self.seq += 1
        return self.seq

    def log(self, kind, aid, text):
        self.events.append("%d %s %s %s" % (self.seq, kind, aid, text))

    def flag(self, prop, clause, msg, locus=""):
        v = Violation(prop, clause, msg, locus, self.seq)
        self.violations.append(v)
        self.log("VIOLATION", "-", "%s %s %s" % (prop, clause, msg))

    def digest(self):
        return core.sha("\n".join(self.events))

    # -- seams installation
    @contextlib.contextmanager
    def installed(self):
        import matplotlib
        import matplotlib.pyplot as plt
        import iOpt.output_system.painters.static_painter as sp
        import iOpt.output_system.painters.dynamic_painter as dp
        saved = []

        def patch(obj, name, val):
            saved.append((obj, name, getattr(obj, name, _MISSING)))
            setattr(obj, name, val)
        clock_ok = hasattr(_process_mod, "datetime")
        if clock_ok:
            patch(_process_mod, "datetime", _make_fake_datetime(self.clock))
        self.clock_seam = clock_ok
        fs = self.fs

        def savefig(*a, **k):
            return fs.savefig(*a, **k)

        def show(*a, **k):
            return fs.show(*a, **k)
        patch(plt, "savefig", savefig)
        patch(plt, "show", show)
        if hasattr(sp, "os"):
            patch(sp, "os", self.fs.os)
        if hasattr(dp, "os"):
            patch(dp, "os", self.fs.os)
        np.random.seed(self.plan.get("run_seed", 0) % (2 ** 32))
        try:
            yield
        finally:
            for obj, name, val in reversed(saved):
                if val is _MISSING:
                    delattr(obj, name)
                else:
                    setattr(obj, name, val)
            try:
                plt.close("all")
                plt.ioff()
                matplotlib.rcdefaults()
            except Exception:
                pass

    # -- execution
    def run(self):
        with self.installed():
            buf = io.StringIO()
            with contextlib.redirect_stdout(buf):
                self._run_ops(self.plan["ops"], top=True, buf=buf)
            for mon in self.monitors:
                mon.on_finish(self)
        return self

    def _run_ops(self, ops, top, buf=None, host=None):
        for op in ops:
            a = self.actors[op["a"]]
            if a.active and op["op"] in ("results", "evq", "sdq") and a.created and a.aborted is None:
                # a READ of the host solver itself from inside its own objective / listener call-out (an objective that
                # logs the current best, a listener that maps a point back onto the curve): legal, and it must not steer
                self.exec_self_read(a, op, host)
                continue
            if a.active:
                self.inconclusive["skipped_self_reentry"] += 1
                continue
            if buf is not None:
                buf.seek(0); buf.truncate(0)
            self.exec_op(a, op, host)
            if buf is not None:
                out = buf.getvalue()
                if out:
                    self.stdout_chunks.append((a.aid, a.op_no, out))
                    self.log("stdout", a.aid, core.sha(out)[:16] + " %d" % len(out))

    def exec_nested(self, ops, host):
        if self.depth >= 2:
            self.inconclusive["nested_depth_capped"] += 1
            return
        self.depth += 1
        try:
            self._run_ops(ops, top=False, host=host)
        finally:
            self.depth -= 1

    def exec_self_read(self, a, op, host=None):
        kind = op["op"]
        if a.cur_op == "solve" and a.params.get("refineSolution") and a.cb_depth == 0:
            # inside an evaluation of a refining Solve the seam cannot yet tell a global trial from a Nelder-Mead
            # evaluation (phases are delimited by public events only): no oracle is consulted at such a moment
            self.inconclusive["self_read_in_undecided_phase"] += 1
            return
        self.n_ops += 1
        self.sig.append((a.aid, "self_" + kind, 0, host.aid if host else "-"))
        self.log("op", a.aid, "self-read %s" % kind)
        self.fired["self_read_inside_callout"] += 1
        outcome = {"raised": None, "result": None, "self_read": True}
        try:
            if kind == "results":
                outcome["result"] = a.solver.GetResults()
            elif kind == "sdq":
                outcome["sdq"] = a.query_search_data(op)
            else:
                outcome["evq"] = a.query_evolvent(op)
        except HarnessError:
            raise
        except BaseException as e:
            _reraise_if_harness(e)
            outcome["raised"] = "%s: %s" % (type(e).__name__, e)
            self.log("op_raised", a.aid, "self-read %s %s" % (kind, type(e).__name__))
        if outcome["result"] is not None:
            a.solutions.append(_snapshot_solution(self, a, outcome["result"], "self_results"))
        for mon in self.monitors:
            mon.on_op_end(self, a, op, outcome)

    def exec_op(self, a, op, host=None):
        kind = op["op"]
        self.n_ops += 1
        self.sig.append((a.aid, kind, op.get("k", op.get("n", 0)), host.aid if host else "-"))
        if kind == "create":
            if not a.created and a.aborted is None:
                self.log("op", a.aid, "create")
                a.create()
                for mon in self.monitors:
                    mon.on_op_end(self, a, op, {"raised": a.construct_error})
            return
        if not a.created or a.aborted is not None:
            self.inconclusive["op_on_dead_actor"] += 1
            return
        a.op_no += 1
        a.cur_op = kind
        a.active = True
        a.solve_budget = None
        a.solve_evals = 0
        a.solve_iters = 0
        a.solve_over_budget = False
        outcome = {"raised": None, "result": None}
        self.log("op", a.aid, "%s %s" % (kind, op.get("k", op.get("n", ""))))
        pre_trials = len(a.global_calls())
        self.exec_stack.append(a)
        try:
            if kind == "iterate":
                a.solver.DoGlobalIteration(int(op["k"]))
            elif kind == "solve":
                lim = int(a.params.get("itersLimit", 20000))
                a.solve_budget = max(0, lim - pre_trials) + 2
                outcome["result"] = a.solver.Solve()
            elif kind == "results":
                outcome["result"] = a.solver.GetResults()
            elif kind == "refine":
                a.solver.DoLocalRefinement(int(op["n"]))
            elif kind == "evq":
                outcome["evq"] = a.query_evolvent(op)
            elif kind == "sdq":
                outcome["sdq"] = a.query_search_data(op)
            elif kind == "saveload":
                # SaveProgress immediately followed by LoadProgress of the same file: whatever these do (empty stubs at this
                # commit), a round trip with nothing in between must leave the search where it was
                import tempfile as _tf
                fn = os.path.join(_tf.gettempdir(), "dsim-progress-%d-%s.json" % (os.getpid(), a.aid))
                try:
                    a.solver.SaveProgress(fn)
                    a.solver.LoadProgress(fn)
                finally:
                    try:
                        os.unlink(fn)
                    except OSError:
                        pass
                cur = a.walk()
                if cur and any(id(it) not in a.known_items for it in cur):
                    a.known_items = {id(it): it for it in cur}      # (an implementation that rebuilds the items on load)
                self.fired["save_load_round_trip"] += 1
            elif kind == "addl":
                # a listener is attached in mid-run
                lid = 200 + a.cb_count.get("_addl", 0)
                a.cb_count["_addl"] = a.cb_count.get("_addl", 0) + 1
                a.solver.AddListener(make_recording_listener(a, lid, ["BeforeMethodStart", "OnEndIteration", "OnMethodStop"]))
                a.late_listeners.append((lid, a.op_no))
                self.fired["listener_attached_in_mid_run"] += 1
            elif kind == "drop":
                # the user keeps the Solutions it was handed and lets go of the Solver object itself
                import gc as _gc
                a.solver = None
                a.problem = None
                a.aborted = "dropped"
                _gc.collect()
                self.fired["solver_dropped_solutions_kept"] += 1
            elif kind == "narrow_box":
                # the caller writes a narrower box into the very arrays it gave the Problem (they are its arrays); the solver
                # was constructed for the old box and keeps it
                pb = a.problem
                for name, vals in (("lowerBoundOfFloatVariables", op["lower"]), ("upperBoundOfFloatVariables", op["upper"])):
                    cur = getattr(pb, name)
                    if op.get("rebind"):
                        setattr(pb, name, np.array(vals, dtype=np.double))      # new arrays assigned to the public fields
                    elif isinstance(cur, np.ndarray) and cur.dtype == np.float64:
                        cur[:] = vals
                    else:
                        setattr(pb, name, type(cur)(vals) if isinstance(cur, list) else vals)
                self.moved_boxes.add(id(pb))
                self.fired["problem_bound_arrays_narrowed_in_place"] += 1
            elif kind == "clone":
                # checkpoint / rollback: the user continues with a deep copy of the solver
                import copy as _copy
                orig = a.solver
                a.solver = _copy.deepcopy(orig)
                a.parameters = a.solver.parameters
                if op.get("keep"):
                    # a fork: the original is not thrown away but carries on by itself (its evaluations are not this
                    # actor's trials); the copy the actor continues with is a separate Solver and must not notice
                    self.kept = getattr(self, "kept", [])
                    self.kept.append(orig)
                    a.shadow = True
                    try:
                        orig.DoGlobalIteration(int(op["keep"]))
                    except Exception:
                        pass        # (the original's own trouble - e.g. double precision exhausted - is not this actor's)
                    finally:
                        a.shadow = False
                    self.fired["original_continues_beside_its_deep_copy"] += 1
                a.known_items = {}
                for it in a.walk():
                    a.known_items[id(it)] = it
                self.fired["solver_replaced_by_its_deep_copy"] += 1
            elif kind == "setp":
                # the user changes a public field of the SolverParameters object between calls (e.g. raises the budget
                # and resumes); only generated for solvers that own their parameters object
                setattr(a.parameters, op["field"], op["value"])
                for b in self.actors.values():
                    # every solver that was given this very parameters object sees the change
                    if b is a or (b.created and b.parameters is a.parameters):
                        b.params[op["field"]] = op["value"]
                        if op["field"] == "r":
                            if b.trials or b.n_real_calls:
                                raise HarnessError("plan changes r in mid-run (not generated: no property describes it)")
                            b.model.r = float(op["value"])
                self.fired["parameter_changed_between_calls"] += 1
            else:
                raise HarnessError("unknown op %r" % kind)
        except HarnessError:
            raise
        except BaseException as e:
            _reraise_if_harness(e)
            outcome["raised"] = "%s: %s" % (type(e).__name__, e)
            outcome["exc"] = e
            self.log("op_raised", a.aid, "%s %s" % (kind, type(e).__name__))
        finally:
            self.exec_stack.pop()
            a.cur_op = None
            a.active = False
            a.cb_depth = 0
        a._resolve_pending()
        if getattr(self, "_strict_cw", None) is not None:
            self._strict_cw.__exit__(None, None, None)
            self._strict_cw = None
        a.sync()
        if outcome["raised"] is not None:
            # was it float exhaustion?  (every property is silent about it)
            if "outside of interval" in outcome["raised"] and a.model.exhausted():
                a.exhausted = True
                a.aborted = "float_exhausted"
                self.inconclusive["float_exhausted"] += 1
            elif is_injected(outcome.get("exc")):
                if not self.plan.get("continue_after_fault"):
                    a.aborted = "fault_propagated"
                else:
                    self.fired["driver_continued_after_fault"] += 1
            else:
                a.aborted = "op_raised"
        if kind == "solve":
            info = {"op_no": a.op_no, "pre": pre_trials, "post": len(a.global_calls()),
                    "over_budget": a.solve_over_budget, "raised": outcome["raised"]}
            a.solve_info.append(info)
        if outcome["result"] is not None:
            a.solutions.append(_snapshot_solution(self, a, outcome["result"], kind))
        for mon in self.monitors:
            mon.on_op_end(self, a, op, outcome)


_MISSING = object()


def _snapshot_solution(w, a, sol, kind):
    snap = {"obj": sol, "kind": kind, "seq": w.seq, "op_no": a.op_no}
    try:
        bt = sol.bestTrials[0]
        snap["point"] = as_floats(bt.point.floatVariables)
        snap["value"] = float(bt.functionValues[0].value)
        snap["nglobal"] = int(sol.numberOfGlobalTrials)
        snap["nlocal"] = int(sol.numberOfLocalTrials)
        snap["accuracy"] = float(sol.solutionAccuracy)
        snap["time"] = float(sol.solvingTime)
        w.log("solution", a.aid, "%s %s %s %d %d %s %s" % (kind, vhex(snap["point"]), fhex(snap["value"]), snap["nglobal"],
                                                         snap["nlocal"], fhex(snap["accuracy"]), fhex(snap["time"])))
    except (AttributeError, IndexError, TypeError, ValueError, KeyError) as e:
        snap["error"] = repr(e)
        w.log("solution", a.aid, "%s unreadable %s" % (kind, type(e).__name__))
    return snap


def read_solution(sol):
    """(point tuple, value, nglobal, nlocal, accuracy) or None if unreadable (e.g. no trial yet)."""
    try:
        bt = sol.bestTrials[0]
        return (as_floats(bt.point.floatVariables), float(bt.functionValues[0].value),
                int(sol.numberOfGlobalTrials), int(sol.numberOfLocalTrials), float(sol.solutionAccuracy))
    except (AttributeError, IndexError, TypeError, ValueError, KeyError):
        return None


def run_plan(plan, monitors=()):
    return World(plan, monitors).run()
