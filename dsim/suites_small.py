"""Suites for the small stateful objects: C15 (benchmark problems), C17 (Evolvent), C19 (containers)."""
