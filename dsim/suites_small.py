"""Suites for the small stateful objects: C15 (benchmark problems), C17 (Evolvent),
C19 (search-data containers).  The simulator is the driver: it decides the call history."""
import copy
import itertools
import math

import numpy as np

from . import core
from . import objectives
from .isolate import fork_call
from .suites import Report, register
from .world import _reraise_if_harness

from iOpt.evolvent.evolvent import Evolvent
from iOpt.trial import Point, FunctionValue, FunctionType
from iOpt.method.search_data import SearchData, SearchDataDualQueue, SearchDataItem, CharacteristicsQueue
from iOpt.solver import Solver
from iOpt.solver_parametrs import SolverParameters

SMALL_REAL = ["Evolvent", "SearchData", "SearchDataDualQueue", "CharacteristicsQueue (+ real depq)", "SearchDataItem",
              "all shipped benchmark problems and their generators", "Solver (as a co-actor in C15)"]
SMALL_SIM = ["the caller: which method is called next, with which argument, on which object (call history)",
             "sibling instances constructed / evaluated in between", "caller-side aliasing: arguments and returned arrays re-used and overwritten"]


class SmallSuite:
    prop = None
    level = "exploration"
    quick_runs = 1000
    thorough_runs = 10000
    rule = ""
    components_real = SMALL_REAL
    components_sim = SMALL_SIM

    def cases(self, rng, tier, run_seed, idx=0):
        yield self.gen_plan(rng, tier, run_seed)


def _r(rng, lo, hi):
    return float("%.6g" % rng.uniform(lo, hi))


# ----------------------------------------------------------------------------------- C17

@register
class C17(SmallSuite):
    prop = "C17"
    quick_runs = 8000
    thorough_runs = 150000
    rule = ("one Evolvent per run (N=1..5, density m with N*m<=50) driven by a random stream of GetImage / GetInverseImage / "
            "GetPreimages / SetBounds calls; x from {0, 1, 1/2, uniform, grid points k/2^(N*m), 1-1e-9}; y uniform in the current "
            "box passed as float ndarray, list, or the very array an earlier GetImage returned; the caller also overwrites arrays "
            "it received earlier and arrays it passed to SetBounds. Oracle per op: result == a fresh Evolvent(current bounds, N, m) "
            "answering that single query, the argument is unchanged, every array returned earlier still equals its copy. "
            "non-trivial: >=3 different op kinds and a SetBounds between two queries; distinct = hash of the op-kind sequence + (N, m)")

    def gen_plan(self, rng, tier, run_seed):
        N = rng.choice([1, 1, 2, 2, 3, 4, 5])
        m = rng.randint(1, min(20, 50 // N)) if rng.random() < 0.7 else rng.choice([10, 50 // N])
        if N >= 2 and rng.random() < 0.06:
            m = rng.randint(50 // N + 1, 64 // N)     # finer than a double can resolve: the image saturates, purity must not
        lower, upper = objectives.gen_box(rng, N)
        ctor_type = None
        if rng.random() < 0.12:
            # whole-number bounds written as python ints / an int array (the repo's own tests construct Evolvent([-1, -1], [1, 1], ...))
            lower, upper = objectives.gen_int_box(rng, N)
            ctor_type = rng.choice(["int_list", "int_array"])
        n_ops = rng.randint(4, 40)
        ops = []
        box = (list(lower), list(upper))
        n_ret = 0
        n_bounds = 1
        for _ in range(n_ops):
            u = rng.random()
            if u < 0.4:
                k = rng.random()
                if k < 0.1:
                    x = rng.choice([0.0, 1.0, 0.5])
                elif k < 0.3:
                    cells = 2 ** (N * m)
                    x = rng.randrange(cells) / cells
                elif k < 0.35:
                    x = 1.0 - 1e-9 * rng.random()
                else:
                    x = rng.random()
                ops.append({"op": "image", "x": x})
                if rng.random() < 0.1:
                    ops[-1]["x_as"] = rng.choice(["np.float64", "array0d"])
                n_ret += 1
            elif u < 0.75:
                kind = rng.choice(["inverse", "preimages"])
                how = rng.choice(["array", "array", "list", "ret"]) if n_ret else rng.choice(["array", "list"])
                o = {"op": kind, "as": how}
                if how == "ret":
                    o["ret"] = rng.randrange(n_ret)
                else:
                    o["y"] = [l + (h - l) * rng.random() for l, h in zip(*box)]
                    if rng.random() < 0.12 and all(math.ceil(l) <= math.floor(h) for l, h in zip(*box)):
                        # integer-typed coordinates, as a caller (and the repo's own test_Preimages_N1) may write them
                        o["y"] = [rng.randint(math.ceil(l), math.floor(h)) for l, h in zip(*box)]
                        o["as"] = rng.choice(["int_list", "int_array"])
                ops.append(o)
            elif u < 0.87:
                v = rng.random()
                if v < 0.2:
                    # a fine adjustment of the current box (relative 1e-6 .. 1e-9 of its size)
                    d = rng.choice([1e-6, 1e-7, 1e-9])
                    lo = [l + (h - l) * d * rng.choice([-1, 1, 2]) for l, h in zip(*box)]
                    hi = [h + (h - l) * d * rng.choice([-1, 1, 3]) for l, h in zip(*box)]
                elif v < 0.35:
                    # a very small box (nanometre scale), possibly next to another one
                    base = [float("%.3g" % rng.uniform(-1, 1)) for _ in range(N)] if rng.random() < 0.5 else [0.0] * N
                    side = rng.choice([1e-9, 4e-9, 1e-7])
                    lo, hi = base, [b + side * rng.choice([1, 2, 4]) for b in base]
                else:
                    lo, hi = objectives.gen_box(rng, N)
                box = (lo, hi)
                ops.append({"op": "setbounds", "lower": lo, "upper": hi})
                n_bounds += 1
            elif u < 0.8715 and n_ret:
                # a long series of images in a row (a solver's whole run on this object): arrays handed out before it stay
                # what they were
                ops.append({"op": "image_series", "n": rng.randint(1030, 2300)})
            elif u < 0.879 and N >= 1:
                ops.append({"op": "sibling", "m": rng.choice([d for d in range(1, min(20, 50 // N) + 1) if d != m] or [m])})
            elif u < 0.885:
                # a SetBounds whose upper argument is malformed (too few components / a scalar / 2-D) while the lower one is a
                # good, different vector.  If the object accepts it, it has been configured with garbage and the run ends there;
                # if it rejects it (raises), the box must still be the previous one - not a hybrid
                lo, _hi = objectives.gen_box(rng, N)
                ops.append({"op": "bad_setbounds", "lower": lo, "upper_kind": rng.choice(["short", "scalar", "2d"])})
            elif u < 0.90:
                # a malformed inverse query (a point of the wrong length): whatever it does itself - raise or answer something -
                # the queries that follow must not be affected by it
                n_bad = rng.choice([0, max(0, N - 1), N + 1, N + 2])
                if n_bad != N:
                    ops.append({"op": "bad_inverse", "kind": rng.choice(["inverse", "preimages"]),
                                "y": [box[0][0] + (box[1][0] - box[0][0]) * rng.random() for _ in range(n_bad)]})
            elif u < 0.94 and n_ret:
                ops.append({"op": "scribble", "ret": rng.randrange(n_ret), "value": _r(rng, -1e3, 1e3)})
            else:
                ops.append({"op": "scribble_bounds", "which": rng.randrange(n_bounds), "value": _r(rng, -1e3, 1e3)})
        plan = {"property": self.prop, "suite": "evolvent", "format": 1, "run_seed": run_seed, "N": N, "m": m,
                "lower": lower, "upper": upper, "ops": ops}
        if ctor_type:
            plan["ctor_bounds_type"] = ctor_type
        return plan

    def check(self, plan):
        rep = Report()
        P = self.prop
        N, m = plan["N"], plan["m"]
        events = []

        def bad(clause, msg):
            rep.violations.append(core.Violation(P, clause, msg, "evolvent"))
        lo0 = np.array(plan["lower"], dtype=np.double)
        hi0 = np.array(plan["upper"], dtype=np.double)
        ct = plan.get("ctor_bounds_type")
        if ct == "int_list":
            lo0, hi0 = [int(v) for v in plan["lower"]], [int(v) for v in plan["upper"]]
        elif ct == "int_array":
            lo0, hi0 = np.array([int(v) for v in plan["lower"]]), np.array([int(v) for v in plan["upper"]])
        rep.probes["int_typed_constructor_bounds"] += int(bool(ct))
        bounds_args = [(lo0, hi0)] if not isinstance(lo0, list) else [(np.array(lo0, dtype=np.double), np.array(hi0, dtype=np.double))]
        cur = (list(plan["lower"]), list(plan["upper"]))
        try:
            ev = Evolvent(lo0, hi0, N, m)
        except BaseException as e:
            _reraise_if_harness(e)
            bad("construct", "Evolvent(...) raised %r" % (e,))
            return rep
        siblings = []
        returned = []     # (live array, copy at return time, scribbled?)
        kinds = set()
        bounds_between = False
        q_before_bounds = False
        for i, op in enumerate(plan["ops"]):
            k = op["op"]
            kinds.add(k)
            try:
                if k == "image":
                    x = op["x"]
                    xa = x
                    if op.get("x_as") == "np.float64":
                        xa = np.float64(x)
                    elif op.get("x_as") == "array0d":
                        xa = np.array(float(x))      # what np.squeeze / a reduction / an element of np.nditer hands over
                    rep.probes["image_argument_" + op.get("x_as", "float")] += 1
                    got = ev.GetImage(xa)
                    want = Evolvent(np.array(cur[0]), np.array(cur[1]), N, m).GetImage(x)
                    events.append("image %s -> %s" % (core.fhex(x), core.vhex(got)))
                    if float(xa) != float(x):
                        bad("argument_modified", "op %d GetImage(x) changed its argument (a %s) from %r to %r" % (i, type(xa).__name__, x, float(xa)))
                        break
                    if not _arr_eq(got, want):
                        bad("history_dependent", "op %d GetImage(%r) = %r, a fresh object answers %r" % (i, x, list(got), list(want)))
                        break
                    returned.append([got, np.array(got, copy=True)])
                    q_before_bounds = True
                elif k in ("inverse", "preimages"):
                    if "y" in op and not all(l <= v <= h for v, l, h in zip(op["y"], cur[0], cur[1])):
                        continue      # (only in shrunk plans) the point is outside the current box: not a legal query
                    if op["as"] == "ret":
                        arg = returned[op["ret"]][0]
                    elif op["as"] == "list":
                        arg = [float(v) for v in op["y"]]
                    elif op["as"] == "int_list":
                        arg = [int(v) for v in op["y"]]
                    elif op["as"] == "int_array":
                        arg = np.array([int(v) for v in op["y"]])
                    else:
                        arg = np.array(op["y"], dtype=np.double)
                    before = copy.deepcopy(arg) if isinstance(arg, list) else np.array(arg, copy=True)
                    fresh_arg = copy.deepcopy(before)
                    fn = ev.GetInverseImage if k == "inverse" else ev.GetPreimages
                    got = fn(arg)
                    fe = Evolvent(np.array(cur[0]), np.array(cur[1]), N, m)
                    want = (fe.GetInverseImage if k == "inverse" else fe.GetPreimages)(fresh_arg)
                    events.append("%s %s -> %s" % (k, core.vhex(before), core.fhex(got)))
                    if not _same_arg(arg, before):
                        bad("argument_modified", "op %d %s modified its argument: %r -> %r" % (i, k, list(before), list(arg)))
                        break
                    if float(got) != float(want):
                        bad("history_dependent", "op %d %s(%r) = %r, a fresh object answers %r" % (i, k, list(before), got, want))
                        break
                    if bounds_between:
                        pass
                    q_before_bounds = True
                elif k == "setbounds":
                    lo = np.array(op["lower"], dtype=np.double)
                    hi = np.array(op["upper"], dtype=np.double)
                    bounds_args.append((lo, hi))
                    ev.SetBounds(lo, hi)
                    cur = (list(op["lower"]), list(op["upper"]))
                    events.append("setbounds")
                    if q_before_bounds:
                        bounds_between = True
                elif k == "image_series":
                    for j in range(int(op["n"])):
                        ev.GetImage((j * 0.6180339887498949) % 1.0)
                    rep.probes["image_series_calls"] += int(op["n"])
                    events.append("image_series %d" % op["n"])
                elif k == "sibling":
                    # another Evolvent (other density, same dimension) is constructed and kept alive next to this one
                    siblings.append(Evolvent(np.array(cur[0]), np.array(cur[1]), N, int(op["m"])))
                    siblings[-1].GetImage(0.3)
                    rep.probes["sibling_evolvents"] += 1
                    events.append("sibling m=%d" % op["m"])
                elif k == "bad_setbounds":
                    rep.probes["malformed_setbounds"] += 1
                    uk = op["upper_kind"]
                    bad_hi = np.array([1e3] * max(0, N - 1), dtype=np.double) if uk == "short" else (np.double(1e3) if uk == "scalar" else np.full((N, 2), 1e3))
                    try:
                        ev.SetBounds(np.array(op["lower"], dtype=np.double), bad_hi)
                        events.append("bad_setbounds accepted")
                        rep.inconclusive["garbage_bounds_accepted"] += 1
                        break       # configured with garbage: nothing that follows is described by the property
                    except core.HarnessError:
                        raise
                    except Exception as e:
                        events.append("bad_setbounds raised %s" % type(e).__name__)
                elif k == "bad_inverse":
                    rep.probes["malformed_queries"] += 1
                    try:
                        (ev.GetInverseImage if op["kind"] == "inverse" else ev.GetPreimages)(np.array(op["y"], dtype=np.double))
                        events.append("bad_inverse answered")
                    except core.HarnessError:
                        raise
                    except Exception as e:
                        events.append("bad_inverse raised %s" % type(e).__name__)
                elif k == "scribble":
                    arr = returned[op["ret"]][0]
                    arr[...] = op["value"]
                    returned[op["ret"]][1] = np.array(arr, copy=True)
                    events.append("scribble %d" % op["ret"])
                elif k == "scribble_bounds":
                    lo, hi = bounds_args[op["which"] % len(bounds_args)]
                    lo[...] = op["value"]
                    hi[...] = op["value"] - 1.0
                    events.append("scribble_bounds")
            except core.HarnessError:
                raise
            except BaseException as e:
                _reraise_if_harness(e)
                bad("raised", "op %d %s raised %r" % (i, k, e))
                break
            for j, (live, cp) in enumerate(returned):
                if not _arr_eq(live, cp):
                    bad("returned_array_changed", "after op %d (%s) the array returned by query #%d changed: %r -> %r" % (i, k, j, list(cp), list(live)))
                    break
            if rep.violations:
                break
        rep.digest = core.sha("\n".join(events))
        rep.n_ops = len(plan["ops"])
        rep.sig = core.short_hash([o["op"] for o in plan["ops"]])
        q = {"image", "inverse", "preimages"} & kinds
        if len(kinds) >= 3 and bounds_between and q:
            rep.nontrivial = core.short_hash((rep.sig, N, m))
        rep.probes["N1_runs"] += int(N == 1)
        rep.probes["arg_is_returned_array"] += sum(1 for o in plan["ops"] if o.get("as") == "ret")
        rep.probes["int_typed_arguments"] += sum(1 for o in plan["ops"] if str(o.get("as", "")).startswith("int_"))
        rep.probes["setbounds"] += sum(1 for o in plan["ops"] if o["op"] == "setbounds")
        rep.probes["scribbles"] += sum(1 for o in plan["ops"] if o["op"].startswith("scribble"))
        return rep


def _arr_eq(a, b):
    try:
        a = np.asarray(a)
        b = np.asarray(b)
        return a.shape == b.shape and a.dtype == b.dtype and bool(np.all(a == b))
    except Exception:
        return False


def _same_arg(arg, before):
    if isinstance(arg, list):
        return isinstance(before, list) and len(arg) == len(before) and all(type(a) is type(b) and a == b for a, b in zip(arg, before))
    return _arr_eq(arg, before)


# ----------------------------------------------------------------------------------- C15

FAMILIES = ["GKLS", "Grishagin", "Hill", "Shekel", "Shekel4", "Rastrigin", "XSquared", "StronginC3"]


def _member(rng, fam=None):
    fam = fam or rng.choice(["GKLS", "GKLS", "Hill", "Hill", "Shekel", "Shekel", "Shekel4", "Rastrigin", "XSquared",
                             "StronginC3", "Grishagin"])
    if fam == "GKLS":
        return {"cls": "GKLS", "args": [rng.randint(2, 5), rng.randint(1, 100)]}
    if fam == "Grishagin":
        return {"cls": "Grishagin", "args": [rng.randint(1, 100)]}
    if fam in ("Hill", "Shekel"):
        return {"cls": fam, "args": [rng.randint(0, 999)]}
    if fam == "Shekel4":
        return {"cls": "Shekel4", "args": [rng.randint(1, 3)]}
    if fam == "StronginC3":
        return {"cls": "StronginC3", "args": []}
    # (the dimension-generic families also in dimensions where a vectorised branch would pay off)
    return {"cls": fam, "args": [rng.choice([rng.randint(1, 5), rng.randint(1, 5), rng.randint(1, 5), rng.randint(6, 12)])]}


def _clean_room(members, queries):
    """For every (member, point, fid): the value from an instance constructed for that purpose
    and evaluated once.  Runs in a forked child."""
    out = {}
    structured = {}
    for mk, mem in members.items():
        p = objectives.make_shipped({"family": "shipped", **mem})
        lo = [float(v) for v in p.lowerBoundOfFloatVariables]
        hi = [float(v) for v in p.upperBoundOfFloatVariables]
        st = {"lower": lo, "upper": hi, "N": int(p.numberOfFloatVariables), "special": []}
        try:
            st["special"].append([float(v) for v in p.knownOptimum[0].point.floatVariables])
        except Exception:
            pass
        try:
            mins = p.function.GKLS_minima
            for j in range(len(mins.local_min)):
                c = [float(v) for v in mins.local_min[j]]
                st["special"].append(c)
                rho = float(mins.rho[j])
                if rho > 0:
                    b = list(c)
                    b[0] = min(hi[0], max(lo[0], c[0] + rho))
                    st["special"].append(b)
        except Exception:
            pass
        structured[mk] = st
    for (mk, pt, fid) in queries:
        mem = members[mk]
        p = objectives.make_shipped({"family": "shipped", **mem})
        fv = FunctionValue() if fid is None else FunctionValue(FunctionType.CONSTRAINT, fid)
        try:
            r = p.Calculate(Point(np.array(pt, dtype=np.double), []), fv)
            out[(mk, tuple(pt), fid)] = float(r.value)
        except Exception:
            out[(mk, tuple(pt), fid)] = None      # (an out-of-box request this family refuses: not used)
    return out, structured


@register
class C15(SmallSuite):
    prop = "C15"
    quick_runs = 1500
    thorough_runs = 24000
    rule = ("a pool of benchmark problem actors drawn from all shipped families (GKLS 2-5 x 1-100, Grishagin, Hill, Shekel, "
            "Shekel4, Rastrigin, XSquared, StronginC3 objective + 3 constraints); ops: construct(member) - several instances of "
            "the same member and of sibling members coexist -, evaluate(actor, point), drop(actor), solve_some(actor) (a real "
            "Solver iterates on the actor in between). Points: uniform in the box plus declared optimum, GKLS minimisers and "
            "ball boundaries, corners, each revisited at several schedule positions. Oracle: every evaluation == clean-room "
            "value (an instance constructed for that purpose in a fresh process and evaluated once), bit for bit; point array "
            "unchanged (dtype included); returned object is the supplied holder and holds the value. non-trivial: some "
            "(member, point) evaluated >=3 times with a construction of another member of the same family in between; distinct "
            "= hash of (members, op-kind sequence)")

    def gen_plan(self, rng, tier, run_seed):
        n_members = rng.choice([1, 2, 2, 3])
        fam0 = rng.choice(["GKLS", "GKLS", "Hill", "Shekel", "Shekel4", "Rastrigin", "XSquared", "StronginC3", "Grishagin"])
        members = {}
        for i in range(n_members):
            # siblings of the same family are the interesting company
            members["M%d" % i] = _member(rng, fam0 if rng.random() < 0.75 else None)
        if sum(1 for mm in members.values() if mm["cls"] == "Grishagin") > 2 or \
                (sum(1 for mm in members.values() if mm["cls"] == "Grishagin") > 1 and rng.random() < 0.5):
            # Grishagin construction is slow (0.2-0.4 s): at most two members, and two only half of the time
            seen_g = 0
            for k in list(members):
                if members[k]["cls"] == "Grishagin":
                    seen_g += 1
                    if seen_g > 1:
                        members[k] = _member(rng, "Hill")
        # points are chosen as fractions of the box / indices of special points; resolved in check()
        pts = {}
        for mk in members:
            pts[mk] = []
            for _ in range(rng.randint(1, 3)):
                u = rng.random()
                if u < 0.5:
                    pts[mk].append({"kind": "frac", "t": [float("%.6g" % rng.random()) for _ in range(5)]})
                elif u < 0.8:
                    pts[mk].append({"kind": "special", "i": rng.randrange(40)})
                elif u < 0.86:
                    # a request outside the box (a caller's slip; the generators answer it with a formula or penalty value):
                    # it must not change what the instance answers afterwards
                    t = [float("%.6g" % rng.random()) for _ in range(5)]
                    t[rng.randrange(5)] = rng.choice([-0.25, 1.25, 1.01, -3.0])
                    t[0] = rng.choice([-0.25, 1.25, t[0]])
                    pts[mk].append({"kind": "frac", "t": t, "outside": True})
                else:
                    pts[mk].append({"kind": "frac", "t": [float(rng.choice([0, 1])) for _ in range(5)]})
        gm = [k for k in members if members[k]["cls"] == "Grishagin"]
        if len(gm) == 2 and rng.random() < 0.6:
            n0 = members[gm[0]]["args"][0]
            members[gm[1]]["args"] = [min(100, max(1, n0 + rng.choice([-1, 1, 1])))]     # neighbours in the generator's sequence
        if fam0 in ("Hill", "Shekel") and rng.random() < 0.3 and len(members) >= 2:
            # both one-dimensional families tabulated over one shared list of Point objects, same function number
            k0, k1 = list(members)[:2]
            n0 = rng.randint(0, 999)
            members[k0] = {"cls": "Hill", "args": [n0]}
            members[k1] = {"cls": "Shekel", "args": [n0]}
            pts[k1] = [{"kind": "frac", "t": [float("%.3g" % (0.02 + 0.09 * rng.random()))] * 5} for _ in range(2)]    # inside [0,1] of both boxes
            pts[k0] = [dict(p, abs=True) for p in pts[k1]]
            pts[k1] = [dict(p, abs=True) for p in pts[k1]]
            shared_points = True
        else:
            shared_points = False
        for mk in members:
            if rng.random() < 0.25:
                # a twin of the first point that differs from it in the 10th-11th significant digit
                p0 = pts[mk][0]
                if p0["kind"] == "frac" and not p0.get("outside"):
                    pts[mk].append({"kind": "frac", "t": [min(1.0, v + 1e-10) for v in p0["t"]]})
        if rng.random() < 0.5:
            # sibling members of one class (same box) are asked about exactly the same points
            first = {}
            for mk in members:
                c = (members[mk]["cls"], tuple(members[mk]["args"][:1]) if members[mk]["cls"] in ("GKLS", "Rastrigin", "XSquared") else ())
                if c in first:
                    pts[mk] = [dict(p) for p in pts[first[c]] if p["kind"] == "frac"] or pts[mk]
                else:
                    first[c] = mk
        ops = []
        slots = []
        n_ops = rng.randint(8, 36)
        for mk in members:
            ops.append({"op": "construct", "slot": len(slots), "member": mk})
            slots.append(mk)
        for _ in range(n_ops):
            u = rng.random()
            if u < 0.2:
                mk = rng.choice(list(members))
                if members[mk]["cls"] == "Grishagin" and rng.random() < 0.7:
                    continue
                ops.append({"op": "construct", "slot": len(slots), "member": mk})
                slots.append(mk)
            elif u < 0.85:
                s = rng.randrange(len(slots))
                mk = slots[s]
                o = {"op": "evaluate", "slot": s, "pt": rng.randrange(len(pts[mk]))}
                if rng.random() < 0.3:
                    o["buf"] = True      # the caller re-uses one work buffer per instance, overwritten in place
                if rng.random() < 0.08:
                    # a request with a non-finite coordinate in between (a caller's slip: the benchmark may raise or return
                    # nan/inf) - it must not change what the instance answers afterwards
                    ops.append({"op": "evaluate_bad", "slot": s, "coord": rng.randrange(5), "value": rng.choice(["inf", "-inf", "nan", "short", "short"]),
                                "pt": rng.randrange(len(pts[mk]))})
                if rng.random() < 0.01:
                    # a long series of evaluations at many distinct points on this instance (bounded per-instance caches wrap)
                    ops.append({"op": "burn", "slot": s, "n": rng.randint(1100, 2500), "axis": rng.randrange(5)})
                if rng.random() < 0.04:
                    # a burst of evaluations in a small neighbourhood of one point (what a local method does: dozens of
                    # consecutive requests inside one basin) - self-organising tables must not change any later answer
                    ops.append({"op": "cluster", "slot": s, "pt": rng.randrange(len(pts[mk])), "n": rng.randint(33, 80),
                                "radius": rng.choice([1e-3, 1e-2, 1e-5])})
                if rng.random() < 0.15:
                    o["int_if_integral"] = True     # coordinates that are whole numbers are passed as python/numpy ints
                v = rng.random()
                if v < 0.2:
                    o["holder"] = "reuse"    # one value holder per instance, re-used for every evaluation
                elif v < 0.3:
                    o["holder"] = "preset"   # a fresh holder pre-set to a sentinel value
                if members[mk]["cls"] == "StronginC3" and rng.random() < 0.5:
                    o["fid"] = rng.randrange(3)
                ops.append(o)
            elif u < 0.93:
                s = rng.randrange(len(slots))
                ops.append({"op": "solve_some", "slot": s, "k": rng.randint(1, 6)})
            else:
                ops.append({"op": "drop", "slot": rng.randrange(len(slots))})
        return {"property": self.prop, "suite": "problems", "format": 1, "run_seed": run_seed, "members": members,
                "points": pts, "ops": ops, "shared_point_objects": shared_points}

    def check(self, plan):
        rep = Report()
        P = self.prop

        def bad(clause, msg):
            rep.violations.append(core.Violation(P, clause, msg, "problem"))
        members = plan["members"]
        # resolve points (needs box + special points of each member: from the clean-room child)
        _, structured = fork_call(_clean_room, members, [])
        pts = {}
        for mk, lst in plan["points"].items():
            st = structured[mk]
            pts[mk] = []
            for p in lst:
                if p.get("abs"):
                    pts[mk].append([float(p["t"][i % len(p["t"])]) for i in range(st["N"])])      # absolute coordinates (shared by two families)
                elif p["kind"] == "special" and st["special"]:
                    pts[mk].append(list(st["special"][p["i"] % len(st["special"])]))
                else:
                    t = p.get("t", [0.5] * 5)
                    pts[mk].append([l + (h - l) * t[i % len(t)] for i, (l, h) in enumerate(zip(st["lower"], st["upper"]))])
        queries = sorted({(plan_slot_member(plan, o["slot"]), tuple(pts[plan_slot_member(plan, o["slot"])][o["pt"]]), o.get("fid"))
                          for o in plan["ops"] if o["op"] == "evaluate"}, key=repr)
        clean, _ = fork_call(_clean_room, members, [(a, list(b), c) for (a, b, c) in queries])
        rep.n_exec = 2
        slots = {}
        bufs = {}
        shared_pts = {}
        holders = {}
        events = []
        seen = {}
        constructed_since = {}
        nontrivial = False
        for i, op in enumerate(plan["ops"]):
            k = op["op"]
            try:
                if k == "construct":
                    mk = op["member"]
                    slots[op["slot"]] = objectives.make_shipped({"family": "shipped", **members[mk]})
                    events.append("construct %s" % mk)
                    fam = members[mk]["cls"]
                    for key in seen:
                        if members[key[0]]["cls"] == fam and key[0] != mk:
                            constructed_since[key] = True
                elif k == "drop":
                    slots.pop(op["slot"], None)
                    events.append("drop")
                elif k == "solve_some":
                    prob = slots.get(op["slot"])
                    if prob is None:
                        continue
                    s = Solver(prob, parameters=SolverParameters(r=3.0, eps=0.01, itersLimit=100))
                    s.DoGlobalIteration(int(op["k"]))
                    events.append("solve_some")
                elif k == "evaluate_bad":
                    prob = slots.get(op["slot"])
                    if prob is None:
                        continue
                    mk = plan_slot_member(plan, op["slot"])
                    ptb = list(pts[mk][op["pt"]])
                    if op["value"] == "short":
                        ptb = ptb[:-1]          # one coordinate missing
                    else:
                        ptb[op["coord"] % len(ptb)] = float(op["value"])
                    rep.probes["non_finite_requests"] += 1
                    try:
                        prob.Calculate(Point(np.array(ptb, dtype=np.double), []), FunctionValue())
                        events.append("evaluate_bad answered")
                    except core.HarnessError:
                        raise
                    except Exception as e:
                        events.append("evaluate_bad raised %s" % type(e).__name__)
                elif k == "cluster":
                    prob = slots.get(op["slot"])
                    if prob is None:
                        continue
                    mk = plan_slot_member(plan, op["slot"])
                    st = structured[mk]
                    c0 = pts[mk][op["pt"]]
                    for j in range(int(op["n"])):
                        p_ = [min(h, max(l, c + (h - l) * op["radius"] * math.cos(1.0 + 2.399963 * j + 1.3 * i_)))
                              for i_, (c, l, h) in enumerate(zip(c0, st["lower"], st["upper"]))]
                        try:
                            prob.Calculate(Point(np.array(p_, dtype=np.double), []), FunctionValue())
                        except Exception:
                            break        # (the centre was an out-of-box request: not judged)
                    rep.probes["cluster_bursts"] += 1
                    events.append("cluster %d" % int(op["n"]))
                elif k == "burn":
                    prob = slots.get(op["slot"])
                    if prob is None:
                        continue
                    mk = plan_slot_member(plan, op["slot"])
                    st = structured[mk]
                    nb = int(op["n"])
                    ax = op["axis"] % st["N"]
                    base = [l + (h - l) * 0.37 for l, h in zip(st["lower"], st["upper"])]
                    for j in range(nb):
                        p_ = list(base)
                        p_[ax] = st["lower"][ax] + (st["upper"][ax] - st["lower"][ax]) * (j + 0.5) / nb
                        if st["N"] > 1:
                            p_[(ax + 1) % st["N"]] = st["lower"][(ax + 1) % st["N"]] + (st["upper"][(ax + 1) % st["N"]] - st["lower"][(ax + 1) % st["N"]]) * ((j * 7919) % nb + 0.5) / nb
                        prob.Calculate(Point(np.array(p_, dtype=np.double), []), FunctionValue())
                    rep.probes["burn_in_evaluations"] += nb
                    events.append("burn %d" % nb)
                elif k == "evaluate":
                    prob = slots.get(op["slot"])
                    if prob is None:
                        continue
                    mk = plan_slot_member(plan, op["slot"])
                    pt = pts[mk][op["pt"]]
                    fid = op.get("fid")
                    if clean.get((mk, tuple(pt), fid)) is None:
                        continue
                    if plan["points"][mk][op["pt"]].get("outside"):
                        rep.probes["out_of_box_requests"] += 1
                    if op.get("buf"):
                        arr = bufs.get(op["slot"])
                        if arr is None:
                            arr = bufs[op["slot"]] = np.zeros(len(pt), dtype=np.double)
                        arr[:] = pt
                        rep.probes["reused_buffer_evaluations"] += 1
                    else:
                        arr = np.array(pt, dtype=np.double)
                    if op.get("int_if_integral") and not op.get("buf") and all(float(v).is_integer() for v in pt):
                        arr = np.array([int(v) for v in pt]) if (i % 2) else [int(v) for v in pt]     # int64 array / list of python ints
                        rep.probes["int_typed_points"] += 1
                    cp = np.array(arr, copy=True) if not isinstance(arr, list) else list(arr)
                    point_obj = Point(arr, [])
                    if plan.get("shared_point_objects") and not op.get("buf") and not isinstance(arr, list):
                        # ONE Point object per coordinate tuple, whichever instance is asked
                        point_obj = shared_pts.setdefault(tuple(pt), point_obj)
                        arr = point_obj.floatVariables
                        cp = np.array(arr, copy=True)
                        rep.probes["evaluations_through_a_shared_point_object"] += 1
                    holder = FunctionValue() if fid is None else FunctionValue(FunctionType.CONSTRAINT, fid)
                    if op.get("holder") == "reuse":
                        holder = holders.setdefault((op["slot"], fid), holder)
                        rep.probes["reused_holder_evaluations"] += 1
                    elif op.get("holder") == "preset":
                        holder.value = 1e6
                        rep.probes["preset_holder_evaluations"] += 1
                    ret = prob.Calculate(point_obj, holder)
                    want = clean[(mk, tuple(pt), fid)]
                    events.append("evaluate %s %s -> %s" % (mk, core.vhex(pt), core.fhex(getattr(ret, "value", float("nan")))))
                    if ret is not holder:
                        bad("holder_identity", "op %d: %s.Calculate did not return the supplied value holder" % (i, members[mk]["cls"]))
                        break
                    if not (_arr_eq(arr, cp) if not isinstance(arr, list) else arr == cp):
                        bad("point_modified", "op %d: %s.Calculate modified the point %r -> %r" % (i, members[mk]["cls"], list(cp), list(arr)))
                        break
                    got = float(holder.value)
                    if got != want and not (math.isnan(got) and math.isnan(want)):
                        bad("history_dependent", "op %d: %s%r at %r returned %r, a fresh instance evaluated once returns %r"
                            % (i, members[mk]["cls"], tuple(members[mk]["args"]), pt, got, want))
                        break
                    key = (mk, tuple(pt), fid)
                    seen[key] = seen.get(key, 0) + 1
                    if seen[key] >= 3 and constructed_since.get(key):
                        nontrivial = True
            except core.HarnessError:
                raise
            except BaseException as e:
                _reraise_if_harness(e)
                bad("raised", "op %d %s raised %r" % (i, k, e))
                break
        rep.digest = core.sha("\n".join(events))
        rep.n_ops = len(plan["ops"])
        rep.sig = core.short_hash([o["op"] for o in plan["ops"]])
        if nontrivial:
            rep.nontrivial = core.short_hash((sorted((k, v["cls"], tuple(v["args"])) for k, v in members.items()), rep.sig))
        for mm in members.values():
            rep.probes["family_" + mm["cls"]] += 1
        rep.probes["evaluations"] += sum(1 for o in plan["ops"] if o["op"] == "evaluate")
        rep.probes["solver_coactor"] += sum(1 for o in plan["ops"] if o["op"] == "solve_some")
        return rep


def plan_slot_member(plan, slot):
    for o in plan["ops"]:
        if o["op"] == "construct" and o["slot"] == slot:
            return o["member"]
    raise core.HarnessError("slot %r never constructed" % slot)


# ----------------------------------------------------------------------------------- C19

class QueueStates:
    """Nondeterministic reference model of a (possibly bounded) max-priority queue: the set of
    queue contents possible under *every* admissible tie order.  A state is a sorted tuple of
    (key, item_id) entries."""
    CAP = 400

    def __init__(self, maxlen):
        self.maxlen = maxlen
        self.states = {()}
        self.overflow = False

    def _norm(self, entries):
        return tuple(sorted(entries))

    def push(self, key, iid):
        new = set()
        for st in self.states:
            ent = list(st) + [(key, iid)]
            if self.maxlen is not None and len(ent) > self.maxlen:
                mn = min(e[0] for e in ent)
                for e in set(x for x in ent if x[0] == mn):
                    e2 = list(ent)
                    e2.remove(e)
                    new.add(self._norm(e2))
            else:
                new.add(self._norm(ent))
        self._set(new)

    def clear(self):
        self.states = {()}

    def _set(self, new):
        if len(new) > self.CAP:
            self.overflow = True
            new = set(list(new)[: self.CAP])
        self.states = new

    def refill_state(self, pairs):
        """states reachable by clear + push(pairs in order)"""
        q = QueueStates(self.maxlen)
        for key, iid in pairs:
            q.push(key, iid)
        return q.states

    def can_be_empty(self):
        return any(len(s) == 0 for s in self.states)

    def lens(self):
        return {len(s) for s in self.states}


class ContainerModel:
    def __init__(self, maxlen, dual):
        self.dual = dual
        self.items = {}       # id -> dict(x, g, l)
        self.order = []       # ids by coordinate
        self.qg = QueueStates(maxlen)
        self.ql = QueueStates(maxlen) if dual else None

    def sorted_ids(self):
        # list order: a hinted insertion goes immediately to the left of its hint, a hint-less one in front of the first
        # item with a greater coordinate (so items with EQUAL coordinates keep a definite, history-determined order)
        return list(self.order)

    def place(self, iid, hint_id=None):
        if hint_id is not None:
            self.order.insert(self.order.index(hint_id), iid)
            return
        x = self.items[iid]["x"]
        for pos, j in enumerate(self.order):
            if self.items[j]["x"] > x:
                self.order.insert(pos, iid)
                return
        self.order.append(iid)

    def refill_pairs(self, which):
        return [(self.items[i][which], i) for i in self.sorted_ids()]

    def pop(self, which, observed_id):
        """Best-interval request answered with `observed_id`.  Returns None if admissible (and
        advances the state set), else a message."""
        q = self.qg if which == "g" else self.ql
        other = (self.ql if which == "g" else self.qg) if self.dual else None
        cur = lambda e: e[0] == self.items[e[1]][which]   # noqa: E731
        new = set()
        any_refilled = False
        expl = []
        for st in q.states:
            pool = [st]
            refilled = False
            if self.dual:
                cands = [e for e in st if cur(e)]
                if not cands:
                    # every entry is stale: all are discarded, the queue is refilled
                    refilled = True
                    pool = list(q.refill_state(self.refill_pairs(which)))
            elif len(st) == 0:
                refilled = True
                pool = list(q.refill_state(self.refill_pairs(which)))
            for s in pool:
                ent = [e for e in s if (cur(e) or not self.dual)]
                if not ent:
                    expl.append("queue empty even after refill")
                    continue
                K = max(e[0] for e in ent)
                hits = [e for e in ent if e[0] == K and e[1] == observed_id]
                if not hits:
                    expl.append("maximal %s key is %r (items %r)" % ("current" if self.dual else "queued", K, sorted({e[1] for e in ent if e[0] == K})))
                    continue
                rest = list(s)
                rest.remove(hits[0])
                if self.dual:
                    rest = [e for e in rest if e[0] <= K]              # stale entries above K were discarded
                    stale_k = [e for e in rest if e[0] == K and not cur(e)]
                    keep_base = [e for e in rest if not (e[0] == K and not cur(e))]
                    # any subset of the stale entries tied at K may have been discarded too
                    for r in range(len(stale_k) + 1):
                        for sub in itertools.combinations(range(len(stale_k)), r):
                            kept = [e for j, e in enumerate(stale_k) if j not in sub]
                            new.add(tuple(sorted(keep_base + kept)))
                else:
                    new.add(tuple(sorted(rest)))
                if refilled:
                    any_refilled = True
        if not new:
            return "; ".join(sorted(set(expl))[:3]) or "no admissible queue state"
        q._set(new)
        if other is not None and any_refilled:
            # the dual container refills both queues at once; tolerate either behaviour
            w2 = "l" if which == "g" else "g"
            other._set(set(other.states) | set(other.refill_state(self.refill_pairs(w2))))
        return None


@register
class C19(SmallSuite):
    prop = "C19"
    quick_runs = 40000
    thorough_runs = 600000
    rule = ("SearchData, SearchDataDualQueue (maxlen in {None,1,2,3,5}) and bare CharacteristicsQueue driven by random op "
            "sequences: InsertFirstDataItem, InsertDataItem(new, hint|None) with fresh distinct coordinates and characteristics "
            "from a small key set (ties on purpose) or all-distinct keys, ClearQueue, RefillQueue, best-interval requests "
            "(global/local), covering-interval lookup, GetCount, traversal, and re-assignment of item characteristics (stale "
            "entries). Oracle per op: ordered-set model (order, links, count, lookup) + a nondeterministic bounded max-queue model "
            "tracking the set of queue contents possible under every admissible tie order; an answer no state can produce is a "
            "violation. non-trivial: >=8 ops incl. a best-interval request after a mutation or a refill; distinct = hash of the "
            "op-kind sequence + container kind")

    ENUM_SYMS = ["Ia", "Ib", "Ic", "Ha", "Hb", "Hc", "B", "Sa", "Sb", "Sc", "R", "C"]
    ENUM_KEYS = {"a": 0.0, "b": 1.0, "c": 2.5}
    ENUM_XS = [0.5, 0.25, 0.75, 0.125, 0.625, 0.375, 0.875]
    ENUM_CONFIGS = [("single", None), ("single", 2), ("dual", None), ("dual", 2)]
    ENUM_BATCH = 2000
    ENUM_MAXLEN = 5

    @classmethod
    def enum_total(cls):
        n = len(cls.ENUM_SYMS)
        return sum(n ** L for L in range(1, cls.ENUM_MAXLEN + 1))

    @classmethod
    def enum_decode(cls, number):
        """number -> symbol sequence (all sequences of length 1..ENUM_MAXLEN, shortest first)"""
        n = len(cls.ENUM_SYMS)
        L = 1
        while number >= n ** L:
            number -= n ** L
            L += 1
        seq = []
        for _ in range(L):
            seq.append(cls.ENUM_SYMS[number % n])
            number //= n
        return seq

    @classmethod
    def enum_ops(cls, seq, dual):
        K = cls.ENUM_KEYS
        ops = [{"op": "insert_first", "g": [K["a"], K["b"]], "l": [K["a"], K["b"]]}]
        nx = 0
        for sym in seq:
            if sym[0] in "IH":
                k = K[sym[1]]
                ops.append({"op": "insert", "x": cls.ENUM_XS[nx], "g": k, "l": k, "hint": sym[0] == "H",
                            "rg": k if sym[0] == "H" else None, "rl": k if sym[0] == "H" else None})
                nx += 1
            elif sym == "B":
                ops.append({"op": "best_g"})
                if dual:
                    ops.append({"op": "best_l"})
            elif sym[0] == "S":
                ops.append({"op": "set_r", "i": 1, "g": K[sym[1]], "l": K[sym[1]]})
            elif sym == "R":
                ops.append({"op": "refill"})
            elif sym == "C":
                ops.append({"op": "clear"})
        ops.append({"op": "best_g"})
        ops.append({"op": "walk"})
        return ops

    def cases(self, rng, tier, run_seed, idx=0):
        if tier == "thorough":
            per_cfg = -(-self.enum_total() // self.ENUM_BATCH)
            if idx < per_cfg * len(self.ENUM_CONFIGS):
                cfg = self.ENUM_CONFIGS[idx // per_cfg]
                start = (idx % per_cfg) * self.ENUM_BATCH
                yield {"property": self.prop, "suite": "containers", "format": 1, "run_seed": run_seed, "kind": cfg[0],
                       "maxlen": cfg[1], "enum": {"start": start, "count": min(self.ENUM_BATCH, self.enum_total() - start)}}
                return
        yield self.gen_plan(rng, tier, run_seed)

    def check_enum(self, plan):
        rep = Report()
        kind, maxlen = plan["kind"], plan["maxlen"]
        e = plan["enum"]
        n = 0
        for number in range(e["start"], e["start"] + e["count"]):
            seq = self.enum_decode(number)
            sub = {"property": self.prop, "suite": "containers", "format": 1, "run_seed": plan["run_seed"], "kind": kind,
                   "maxlen": maxlen, "ops": self.enum_ops(seq, kind == "dual"), "enumerated": "".join(seq)}
            r = self.check(sub)
            n += 1
            if r.violations:
                r.replay_plan = sub
                r.probes["enumerated_sequences"] += n
                return r
        rep.probes["enumerated_sequences"] += n
        rep.n_ops = n
        rep.digest = core.short_hash((kind, maxlen, e["start"], e["count"]))
        rep.nontrivial = rep.digest
        rep.sig = rep.digest
        return rep

    def gen_storm(self, rng, run_seed):
        """A long history: several hundred intervals queued under high characteristics, all of them re-estimated downwards
        afterwards (no refill): the next request has to get past a thousand and more stale entries."""
        kind = rng.choice(["single", "dual", "dual"])
        n = rng.randint(520, 700)
        ops = [{"op": "insert_first", "g": [0.5, 0.25], "l": [0.5, 0.25]}]
        xs = sorted({float("%.6g" % rng.random()) for _ in range(n)} - {0.0, 1.0})
        rng.shuffle(xs)
        for j, x in enumerate(xs):
            ops.append({"op": "insert", "x": x, "g": 100.0 + j, "l": 300.0 + j, "hint": rng.random() < 0.8, "rg": 1000.0 + j, "rl": 2000.0 + j})
        low = rng.randint(2, len(xs) // 2)
        for i in range(len(xs) + 2):
            if i != low:
                ops.append({"op": "set_r", "i": i, "g": -1.0 - i * 1e-3, "l": -2.0 - i * 1e-3})
        ops += [{"op": "best_g"}] + ([{"op": "best_l"}] if kind == "dual" else []) + [{"op": "best_g"}, {"op": "count"}]
        return {"property": self.prop, "suite": "containers", "format": 1, "run_seed": run_seed, "kind": kind, "maxlen": None,
                "ops": ops, "storm": True}

    def gen_plan(self, rng, tier, run_seed):
        if rng.random() < 0.002:
            return self.gen_storm(rng, run_seed)
        kind = rng.choice(["single", "single", "dual", "dual", "queue"])
        maxlen = rng.choice([None, None, 1, 2, 3, 5])
        distinct = rng.random() < 0.35
        alphabet = [0.0, 1.0, 2.5, -1.0, 7.0]
        if rng.random() < 0.15:
            # characteristics that differ in the 7th-9th significant digit, or are all tiny: "equal" must mean equal
            alphabet = rng.choice([[1.0, 1.00000005, 1.0000001, 0.99999995, 1.0000002], [1e-9, 2e-9, 1.5e-9, 0.0, 3e-9]])
        elif rng.random() < 0.12:
            alphabet = [float("-inf"), 0.0, 1.0, float("-inf"), 2.5]      # -inf is a legal characteristic (the solver's leftmost item has it)
        serial = [0]

        def key():
            if distinct:
                serial[0] += 1
                return float("%.6g" % (rng.uniform(-10, 10))) + serial[0] * 1e-3
            return rng.choice(alphabet[: rng.choice([2, 3, 5])])
        ops = []
        n_ops = rng.randint(3, 40)
        if kind == "queue":
            n_items = 0
            for _ in range(n_ops):
                u = rng.random()
                if u < 0.55:
                    ops.append({"op": "q_insert", "key": key(), "id": n_items})
                    n_items += 1
                elif u < 0.85:
                    ops.append({"op": "q_best"})
                elif u < 0.9:
                    ops.append({"op": "q_clear"})
                else:
                    ops.append({"op": rng.choice(["q_len", "q_empty", "q_maxlen"])})
            return {"property": self.prop, "suite": "containers", "format": 1, "run_seed": run_seed, "kind": kind,
                    "maxlen": maxlen, "ops": ops}
        ops.append({"op": "insert_first", "g": [key(), key()], "l": [key(), key()]})
        xs = [0.0, 1.0]
        for _ in range(n_ops):
            u = rng.random()
            if u < 0.4:
                if len(xs) > 2 and rng.random() < 0.06:
                    # a coordinate that is already present ("arbitrary coordinates"): list order is then decided by the hint
                    ops.append({"op": "insert", "x": rng.choice(xs[2:]), "g": key(), "l": key(), "hint": rng.random() < 0.7, "dup": True,
                                "rg": key() if rng.random() < 0.7 else None, "rl": key() if rng.random() < 0.7 else None})
                    continue
                while True:
                    x = float("%.6g" % rng.random()) if rng.random() < 0.8 else rng.choice(xs[:-1]) + (rng.choice(xs[1:]) - rng.choice(xs[:-1])) * 0.5
                    if 0.0 < x < 1.0 and x not in xs:
                        break
                xs.append(x)
                ops.append({"op": "insert", "x": x, "g": key(), "l": key(), "hint": rng.random() < 0.6,
                            "rg": key() if rng.random() < 0.7 else None, "rl": key() if rng.random() < 0.7 else None})
            elif u < 0.62:
                ops.append({"op": "best_g"})
            elif u < 0.7 and kind == "dual":
                ops.append({"op": "best_l"})
            elif u < 0.76:
                ops.append({"op": "clear"})
            elif u < 0.82:
                ops.append({"op": "refill"})
            elif u < 0.9:
                ops.append({"op": "set_r", "i": rng.randrange(len(xs)), "g": key() if rng.random() < 0.8 else None,
                            "l": key() if rng.random() < 0.5 else None})
            elif u < 0.93:
                q = rng.choice([rng.random(), rng.choice(xs[:-1]), 0.0])
                ops.append({"op": "find", "x": q})
            elif u < 0.96:
                # an insertion the container has to reject (a coordinate no interval covers, no hint): whatever it does -
                # raise, or append at the end - what it holds afterwards must still be exactly what was inserted
                ops.append({"op": "insert_bad", "x": rng.choice([1.0, 1.0, 1.5, 7.0]), "g": key(), "l": key()})
            elif u < 0.985:
                ops.append({"op": rng.choice(["count", "walk", "last"])})
            else:
                # traversal of this container while ANOTHER container is being used (lookups, a traversal, an insertion there)
                ops.append({"op": "walk_while_other_is_used", "other_kind": rng.choice(["single", "dual"]),
                            "do": [rng.choice(["find", "walk", "insert", "best"]) for _ in range(rng.randint(1, 3))],
                            "q": float("%.4g" % rng.random())})
        plan = {"property": self.prop, "suite": "containers", "format": 1, "run_seed": run_seed, "kind": kind,
                "maxlen": maxlen, "ops": ops}
        if rng.random() < 0.1:
            plan["empty_value_lists"] = True
        return plan

    def check(self, plan):
        if "enum" in plan:
            return self.check_enum(plan)
        rep = Report()
        P = self.prop
        kind, maxlen = plan["kind"], plan["maxlen"]
        events = []

        def bad(clause, msg):
            rep.violations.append(core.Violation(P, clause, msg, kind))
        try:
            if kind == "queue":
                self._check_queue(plan, rep, bad, events)
            else:
                self._check_container(plan, rep, bad, events)
        except core.HarnessError:
            raise
        except BaseException as e:
            _reraise_if_harness(e)
            bad("raised", "container operation raised %r" % (e,))
        rep.digest = core.sha("\n".join(events))
        rep.n_ops = len(plan["ops"])
        rep.sig = core.short_hash(([o["op"] for o in plan["ops"]], kind, maxlen))
        return rep

    def _check_queue(self, plan, rep, bad, events):
        q = CharacteristicsQueue(plan["maxlen"])
        model = QueueStates(plan["maxlen"])
        items = {}
        mutated = False
        best_after = False
        for i, op in enumerate(plan["ops"]):
            k = op["op"]
            if k == "q_insert":
                it = SearchDataItem(Point(np.array([0.0]), []), float(op["id"]))
                items[op["id"]] = it
                q.Insert(op["key"], it)
                model.push(op["key"], op["id"])
                mutated = True
                events.append("insert %r %d" % (op["key"], op["id"]))
            elif k == "q_best":
                if model.can_be_empty():
                    continue          # precondition: non-empty
                got = q.GetBestItem()
                gid = [j for j, it in items.items() if it is got[0]]
                new = set()
                why = []
                for st in model.states:
                    K = max(e[0] for e in st)
                    hit = [e for e in st if e[0] == K and gid and e[1] == gid[0]]
                    if hit and got[1] == K:
                        r = list(st)
                        r.remove(hit[0])
                        new.add(tuple(sorted(r)))
                    else:
                        why.append("max queued key %r held by items %r" % (K, sorted({e[1] for e in st if e[0] == K})))
                events.append("best -> %r" % (gid,))
                if not new:
                    bad("best_not_max", "op %d: GetBestItem returned item %r with key %r; %s" % (i, gid, got[1], "; ".join(sorted(set(why))[:2])))
                    return
                model._set(new)
                best_after = best_after or mutated
            elif k == "q_clear":
                q.Clear()
                model.clear()
                mutated = True
                events.append("clear")
            elif k == "q_len":
                n = q.GetLen()
                if n not in model.lens():
                    bad("len", "op %d: GetLen()=%d, model allows %r" % (i, n, sorted(model.lens())))
                    return
            elif k == "q_empty":
                e = q.IsEmpty()
                if (e and 0 not in model.lens()) or (not e and model.lens() == {0}):
                    bad("empty", "op %d: IsEmpty()=%r, model length %r" % (i, e, sorted(model.lens())))
                    return
            elif k == "q_maxlen":
                if q.GetMaxLen() != plan["maxlen"]:
                    bad("maxlen", "GetMaxLen()=%r, configured %r" % (q.GetMaxLen(), plan["maxlen"]))
                    return
        if model.overflow:
            rep.inconclusive["state_set_capped"] += 1
        if len(plan["ops"]) >= 8 and best_after:
            rep.nontrivial = core.short_hash(([o["op"] for o in plan["ops"]], "queue", plan["maxlen"]))
        rep.probes["queue_runs"] += 1
        rep.probes["bounded_runs"] += int(plan["maxlen"] is not None)

    def _check_container(self, plan, rep, bad, events):
        kind, maxlen = plan["kind"], plan["maxlen"]
        dual = kind == "dual"
        sd = (SearchDataDualQueue if dual else SearchData)(None, maxlen)
        model = ContainerModel(maxlen, dual)
        items = {}      # id -> real item
        nid = [0]
        mutated = False
        best_after = False

        def mk(x, g, l):
            if plan.get("empty_value_lists") and (len(items) % 3 == 1):
                it = SearchDataItem(Point(np.array([x]), []), x, functionValues=[])      # an item that carries no value holder (legal)
            else:
                it = SearchDataItem(Point(np.array([x]), []), x)
            it.globalR = g
            it.localR = l
            i = nid[0]
            nid[0] += 1
            items[i] = it
            model.items[i] = {"x": x, "g": g, "l": l}
            return i, it
        model.order = []

        def id_of(it):
            for i, v in items.items():
                if v is it:
                    return i
            return None

        def check_structure(where):
            walk = []
            for it in sd:
                walk.append(it)
                if len(walk) > len(items) + 4:
                    break
            ids = [id_of(it) for it in walk]
            want = model.sorted_ids()
            if ids != want:
                bad("traversal", "%s: traversal yields items %r (coordinates %r), expected %r" % (where, ids, [float(it.GetX()) for it in walk], want))
                return False
            for j, it in enumerate(walk):
                l = it.GetLeft()
                r = it.GetRight()
                if (l is not (walk[j - 1] if j > 0 else None)) or (r is not (walk[j + 1] if j + 1 < len(walk) else None)):
                    bad("links", "%s: neighbour links of item %r are inconsistent" % (where, ids[j]))
                    return False
            if sd.GetCount() != len(want):
                bad("count", "%s: GetCount()=%d, %d items inserted" % (where, sd.GetCount(), len(want)))
                return False
            return True
        for i, op in enumerate(plan["ops"]):
            k = op["op"]
            if k == "insert_first":
                li, l = mk(0.0, op["g"][0], op["l"][0])
                ri, r = mk(1.0, op["g"][1], op["l"][1])
                model.order = [li, ri]
                sd.InsertFirstDataItem(l, r)
                events.append("insert_first")
            elif k == "insert":
                x = op["x"]
                right_id = None
                for j in model.sorted_ids():
                    if model.items[j]["x"] > x or (op.get("dup") and op["hint"] and model.items[j]["x"] == x):
                        right_id = j
                        break
                if right_id is None:
                    continue
                ni, it = mk(x, op["g"], op["l"])
                model.place(ni, right_id if op["hint"] else None)
                rep.probes["equal_coordinate_insertions"] += int(bool(op.get("dup")))
                if op["hint"]:
                    # Method re-computes the right neighbour's characteristics before inserting
                    if op.get("rg") is not None:
                        items[right_id].globalR = op["rg"]
                        model.items[right_id]["g"] = op["rg"]
                    if op.get("rl") is not None:
                        items[right_id].localR = op["rl"]
                        model.items[right_id]["l"] = op["rl"]
                    sd.InsertDataItem(it, items[right_id])
                else:
                    sd.InsertDataItem(it)
                model.qg.push(op["g"], ni)
                if dual:
                    model.ql.push(op["l"], ni)
                if op["hint"]:
                    model.qg.push(model.items[right_id]["g"], right_id)
                    if dual:
                        model.ql.push(model.items[right_id]["l"], right_id)
                mutated = True
                events.append("insert %r hint=%r" % (x, op["hint"]))
                if not check_structure("op %d insert" % i):
                    return
            elif k == "insert_bad":
                ni, it = mk(op["x"], op["g"], op["l"])
                rep.probes["rejected_insertions"] += 1
                try:
                    sd.InsertDataItem(it)
                    accepted = True
                except core.HarnessError:
                    raise
                except Exception as e:
                    accepted = False
                    events.append("insert_bad raised %s" % type(e).__name__)
                if accepted:
                    model.place(ni, None)
                    model.qg.push(op["g"], ni)
                    if dual:
                        model.ql.push(op["l"], ni)
                    events.append("insert_bad accepted")
                else:
                    del model.items[ni]
                    del items[ni]
                mutated = True
                if not check_structure("op %d rejected insertion" % i):
                    return
            elif k in ("best_g", "best_l"):
                which = k[-1]
                got = sd.GetDataItemWithMaxGlobalR() if which == "g" else sd.GetDataItemWithMaxLocalR()
                gid = id_of(got)
                events.append("%s -> %r" % (k, gid))
                msg = model.pop(which, gid)
                if msg is not None:
                    bad("best_not_max", "op %d: best-%s request returned item %r (queued/current key %r); %s"
                        % (i, "global" if which == "g" else "local", gid, model.items[gid][which] if gid is not None else None, msg))
                    return
                best_after = best_after or mutated
            elif k == "clear":
                sd.ClearQueue()
                model.qg.clear()
                if dual:
                    model.ql.clear()
                mutated = True
                events.append("clear")
            elif k == "refill":
                sd.RefillQueue()
                model.qg._set(set(model.qg.refill_state(model.refill_pairs("g"))))
                if dual:
                    model.ql._set(set(model.ql.refill_state(model.refill_pairs("l"))))
                mutated = True
                events.append("refill")
            elif k == "set_r":
                ids = model.sorted_ids()
                j = ids[op["i"] % len(ids)]
                if op.get("g") is not None:
                    items[j].globalR = op["g"]
                    model.items[j]["g"] = op["g"]
                if op.get("l") is not None:
                    items[j].localR = op["l"]
                    model.items[j]["l"] = op["l"]
                mutated = True
                events.append("set_r %d" % j)
            elif k == "find":
                x = op["x"]
                got = sd.FindDataItemByOneDimensionalPoint(x)
                want = None
                for j in model.sorted_ids():
                    if model.items[j]["x"] > x:
                        want = j
                        break
                events.append("find %r -> %r" % (x, id_of(got)))
                if id_of(got) != want:
                    bad("lookup", "op %d: covering-interval lookup of %r returned item %r, first item to the right is %r" % (i, x, id_of(got), want))
                    return
            elif k in ("count", "walk"):
                if not check_structure("op %d %s" % (i, k)):
                    return
            elif k == "walk_while_other_is_used":
                rep.probes["traversals_while_another_container_is_used"] += 1
                other = (SearchDataDualQueue if op["other_kind"] == "dual" else SearchData)(None, None)
                ol = SearchDataItem(Point(np.array([0.0]), []), 0.0)
                orr = SearchDataItem(Point(np.array([1.0]), []), 1.0)
                om = SearchDataItem(Point(np.array([0.5]), []), 0.5)
                for it_, g_ in ((ol, -1.0), (orr, 2.0), (om, 1.0)):
                    it_.globalR = g_
                    it_.localR = g_
                other.InsertFirstDataItem(ol, orr)
                other.InsertDataItem(om, orr)
                seen = []
                step = 0
                for it in sd:
                    seen.append(it)
                    if len(seen) > len(items) + 4:
                        break
                    what = op["do"][step % len(op["do"])]
                    step += 1
                    if what == "find":
                        other.FindDataItemByOneDimensionalPoint(op["q"])
                    elif what == "walk":
                        for _ in other:
                            pass
                    elif what == "best":
                        other.GetDataItemWithMaxGlobalR()
                    else:
                        xn = 0.25 + 0.5 * op["q"] / (step + 1)
                        ni_ = SearchDataItem(Point(np.array([xn]), []), xn)
                        ni_.globalR = 0.5
                        ni_.localR = 0.5
                        try:
                            other.InsertDataItem(ni_)
                        except Exception:
                            pass
                ids = [id_of(it) for it in seen]
                events.append("walk_while_other_is_used -> %r" % (ids,))
                if ids != model.sorted_ids():
                    bad("traversal", "op %d: a traversal during which another container was used yields items %r, expected %r" % (i, ids, model.sorted_ids()))
                    return
            elif k == "last":
                last = sd.GetLastItem()
                if id_of(last) is None:
                    bad("last_item", "op %d: GetLastItem() returned an item that was never (successfully) inserted" % i)
                    return
        if model.qg.overflow or (dual and model.ql.overflow):
            rep.inconclusive["state_set_capped"] += 1
        if len(plan["ops"]) >= 8 and best_after:
            rep.nontrivial = core.short_hash(([o["op"] for o in plan["ops"]], kind, maxlen))
        rep.probes[kind + "_runs"] += 1
        rep.probes["bounded_runs"] += int(maxlen is not None)
        rep.probes["best_requests"] += sum(1 for o in plan["ops"] if o["op"].startswith("best"))
