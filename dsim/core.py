"""Shared basics: repo path, seeds, hashing, exceptions, float helpers."""
import hashlib
import math
import os
import sys

VERIF_DIR = os.path.dirname(os.path.dirname(os.path.abspath(__file__)))
REPO = os.path.abspath(os.environ.get("VERIF_REPO", "/repo"))


def setup_repo_path():
    """Code under test is imported from the repo's *current working tree*."""
    os.environ.setdefault("MPLBACKEND", "Agg")
    sys.dont_write_bytecode = True
    if not sys.path or sys.path[0] != REPO:
        sys.path.insert(0, REPO)


def assert_repo_import():
    import iOpt
    p = os.path.abspath(iOpt.__file__)
    if not p.startswith(REPO + os.sep):
        raise HarnessError("iOpt imported from %s, expected under %s" % (p, REPO))


class HarnessError(Exception):
    """A failure of the verification machinery itself (exit code 2, never a VIOLATION)."""


class SimFault(BaseException):
    """Private BaseException injected at the objective seam."""


class WatchdogStop(BaseException):
    """Raised by the seam / timer to end a run that exceeded its budget."""


def derive(master, *labels):
    """One integer decides everything: H(master, labels) -> 63-bit seed."""
    h = hashlib.sha256(repr((int(master),) + tuple(labels)).encode()).digest()
    return int.from_bytes(h[:8], "big") >> 1


def fhex(v):
    """Canonical text for a float in logs (exact)."""
    try:
        return float(v).hex()
    except Exception:
        return repr(v)


def vhex(y):
    return "[" + ",".join(fhex(c) for c in y) + "]"


def sha(text):
    return hashlib.sha256(text.encode()).hexdigest()


def short_hash(obj):
    return hashlib.sha256(repr(obj).encode()).hexdigest()[:16]


def ulp(x):
    return math.ulp(x)


def as_floats(y):
    """Copy of a point as a tuple of python floats (never aliases the argument)."""
    return tuple(float(c) for c in y)


EXC_KINDS = {
    "ValueError": ValueError,
    "ZeroDivisionError": ZeroDivisionError,
    "MemoryError": MemoryError,
    "StopIteration": StopIteration,
    "KeyboardInterrupt": KeyboardInterrupt,
    "SystemExit": SystemExit,
    "GeneratorExit": GeneratorExit,
    "SimFault": SimFault,
    "OverflowError": OverflowError,               # what math.exp / float ** produce on a wide box
    "FloatingPointError": FloatingPointError,     # numpy under np.errstate(over="raise")
    "LibraryIndexError": IndexError,              # raised inside library code (see world.on_objective_call)
}


class Violation:
    """A property violation found by an oracle."""

    def __init__(self, prop, clause, msg, locus="", seq=-1):
        self.prop = prop
        self.clause = clause
        self.msg = msg
        self.locus = locus
        self.seq = seq

    def to_json(self):
        return {"property": self.prop, "clause": self.clause, "locus": self.locus,
                "message": self.msg, "event_seq": self.seq}

    def key(self):
        return (self.prop, self.clause)

    def __repr__(self):
        return "Violation(%s/%s @%s: %s)" % (self.prop, self.clause, self.locus, self.msg)
