"""Suites that compare several executions: C11 (batching), C12 (isolation), C13 (listeners),
C16 (objective faults)."""
import copy
import itertools
import json
import os
import re

from . import core
from . import gen_solver as G
from . import objectives
from .isolate import fork_call, PristineServer
from .suites import Report, SolverSuite, register, interleave, gen_nested, TIE_FAMILIES
from .world import World, Monitor, read_solution, _reraise_if_harness, _innermost_file
from .oracles import C06Monitor, rel_eq


# ------------------------------------------------------------------ per-op summaries

class Summarizer(Monitor):
    """After each op of an actor: what a user could observe of that actor."""

    def __init__(self):
        self.ops = {}

    def on_op_end(self, w, a, op, outcome):
        if outcome.get("self_read"):
            return          # reads from inside the host's own call-outs are not replayed by the solo reference
        if op["op"] == "drop":
            return
        lst = self.ops.setdefault(a.aid, [])
        if op["op"] == "create":
            lst.append({"op": "create", "raised": a.construct_error})
            return
        calls = [(c.y, c.value) for c in a.calls if c.phase != "probe"]
        items = a.walk()
        sd = []
        for it in items:
            try:
                sd.append((float(it.GetX()), float(it.GetZ())))
            except BaseException as e:
                _reraise_if_harness(e)
                sd.append(("?", "?"))
        res = None
        try:
            res = read_solution(a.solver.GetResults())
        except BaseException as e:
            _reraise_if_harness(e)
        ret = read_solution(outcome["result"]) if outcome.get("result") is not None else None
        lst.append({"op": op["op"], "k": op.get("k", op.get("n")), "evq": ({k: v for k, v in op.items() if k != "a"} if op["op"] in ("evq", "sdq", "setp", "clone", "narrow_box") else None),
                    "evq_answer": outcome.get("evq"),
                    "raised": (outcome.get("raised") or "").split(":")[0] or None,
                    "n_calls": len(calls), "calls_h": core.short_hash(calls), "sd_h": core.short_hash(sd), "n_items": len(sd),
                    "results": res, "returned": ret})


def summarize_final(w, aid):
    a = w.actors[aid]
    return {"calls": [(c.phase, c.y, c.value, c.fault) for c in a.calls if c.phase != "probe"],
            "trials": list(a.trials), "aborted": a.aborted,
            "model_chosen": list(a.model.chosen), "stop_index": a.model.stop_index(a.params["eps"], int(a.params["itersLimit"]))}


def solo_run(spec, ops, clock=None, faults=None, cont=False):
    """Reference execution of one actor alone (run in a forked child)."""
    plan = G.base_plan("solo", 0, {"S": spec}, [dict(o, a="S") for o in ops], clock=clock or {})
    if faults:
        plan["faults"] = [dict(f, a="S") for f in faults]
        plan["continue_after_fault"] = bool(cont)
    sm = Summarizer()
    w = World(plan, [sm]).run()
    out = summarize_final(w, "S")
    out["ops"] = sm.ops.get("S", [])
    out["solutions"] = [{k: v for k, v in s.items() if k != "obj"} for s in w.actors["S"].solutions]
    out["stdout"] = [c[2] for c in w.stdout_chunks]
    return out


def first_diff(a, b):
    for i, (x, y) in enumerate(zip(a, b)):
        if x != y:
            return i, x, y
    if len(a) != len(b):
        i = min(len(a), len(b))
        return i, (a[i] if i < len(a) else None), (b[i] if i < len(b) else None)
    return None


# ----------------------------------------------------------------------------------- C11

@register
class C11(SolverSuite):
    prop = "C11"
    quick_runs = 8000
    thorough_runs = 100000
    rule = ("for one solver spec: canonical twin (Solve only), one-at-a-time reference, and a random composition of the "
            "iterations into DoGlobalIteration(k) batches followed by Solve (compositions that overshoot the stop point included), "
            "optionally Solve;Solve and Solve;GetResults;Solve; the variant is executed twice in one process. The objective logs "
            "must be bit-identical on their common prefix, the length must be max(sum k, T*), a repeated Solve adds no global "
            "trial, digests of repeated executions are equal. non-trivial: >=2 batches of different sizes or a repeated Solve; "
            "distinct = hash of (objective, box, params, batch sizes)")

    def monitors(self):
        return []

    def cases(self, rng, tier, run_seed, idx=0):
        if tier == "thorough" and idx % 50 == 7:
            # supplement: ALL 2^(n-1) compositions of a short run (n <= 9), plus all of n+1 (overshoot)
            spec = G.gen_actor(rng, max_iters=9, refine=False, shipped_prob=0.1, small_iters_prob=0.0)
            spec["params"]["itersLimit"] = rng.randint(2, 9)
            twin = fork_call(solo_run, spec, [{"op": "create"}, {"op": "solve"}])
            n = len([c for c in twin["calls"] if c[0] == "global"])
            clock = G.gen_clock(rng)
            for total in (n, n + 1):
                if total < 1 or total > 10:
                    continue
                for mask in range(2 ** (total - 1)):
                    batches, cur = [], 1
                    for b in range(total - 1):
                        if mask >> b & 1:
                            batches.append(cur)
                            cur = 1
                        else:
                            cur += 1
                    batches.append(cur)
                    ops = [{"a": "S0", "op": "create"}] + [{"a": "S0", "op": "iterate", "k": k} for k in batches] + [{"a": "S0", "op": "solve"}]
                    yield G.base_plan(self.prop, run_seed, {"S0": spec}, ops, clock=clock, exhaustive_family=[n, total])
            return
        if tier == "thorough" and idx % 50 == 23:
            # supplement: the same plans re-executed in a fresh interpreter under another PYTHONHASHSEED
            plans = [self.gen_plan(rng, tier, run_seed) for _ in range(12)]
            yield {"property": self.prop, "suite": "solver", "format": 1, "run_seed": run_seed, "xproc_batch": plans,
                   "hashseed": rng.choice(["0", "1", "12345", "random"])}
            return
        yield self.gen_plan(rng, tier, run_seed)

    def gen_plan(self, rng, tier, run_seed):
        L = rng.randint(3, 60) if rng.random() < 0.85 else rng.randint(60, 250)
        spec = G.gen_actor(rng, max_iters=L, refine=(rng.random() < 0.15), shipped_prob=0.1, small_iters_prob=0.1)
        lim = spec["params"]["itersLimit"]
        total = rng.choice([0, rng.randint(0, max(1, lim)), rng.randint(0, lim + 6), rng.randint(0, 12)])
        batches = G.gen_batches(rng, total) if total else []
        ops = [{"a": "S0", "op": "create"}]
        peek = rng.random() < 0.35       # the caller reads GetResults() between the batches (reading must not steer the search)
        for k in batches:
            ops.append({"a": "S0", "op": "iterate", "k": k})
            if peek and rng.random() < 0.6:
                ops.append({"a": "S0", "op": "results"})
        ops.append({"a": "S0", "op": "solve"})
        if rng.random() < 0.3 and not spec["params"].get("refineSolution"):
            spec["brackets"] = False     # no listener at all on the solver (the library then never calls GetResults itself)
        ops = G.sprinkle_evq(rng, ops, "S0", spec)
        u = rng.random()
        if u < 0.25:
            ops.append({"a": "S0", "op": "solve"})
        elif u < 0.4:
            ops += [{"a": "S0", "op": "results"}, {"a": "S0", "op": "solve"}]
        actors = {"S0": spec}
        if rng.random() < 0.3:
            # a decoy: another live solver of the same dimension on a different box, created (and
            # possibly stepped) somewhere in between - the sequence must be a function of S0's own
            # problem and parameters only
            N = spec["objective"]["N"]
            actors["D"] = G.gen_actor(rng, max_iters=10, dims=(N,), shipped_prob=0.0, refine=False)
            dops = [{"a": "D", "op": "create"}]
            if rng.random() < 0.6:
                dops += [{"a": "D", "op": "iterate", "k": rng.randint(1, 3)} for _ in range(rng.randint(1, 3))]
            pos = sorted(rng.randint(0, len(ops)) for _ in dops)
            for off, (i, o) in enumerate(zip(pos, dops)):
                ops.insert(i + off, o)
        if rng.random() < 0.12 and not spec["params"].get("refineSolution"):
            # the user relaxes / tightens the stop parameters on the parameters object and calls Solve again
            cur = dict(spec["params"])
            for _ in range(rng.randint(1, 2)):
                if rng.random() < 0.7:
                    cur["itersLimit"] = int(max(1, cur["itersLimit"] + rng.choice([-3, 1, 2, 5, 20])))
                    ops.append({"a": "S0", "op": "setp", "field": "itersLimit", "value": cur["itersLimit"]})
                else:
                    cur["eps"] = float("%.3g" % max(G.EPS_MIN[spec["objective"]["N"]], cur["eps"] * rng.choice([0.5, 0.2, 2.0])))
                    ops.append({"a": "S0", "op": "setp", "field": "eps", "value": cur["eps"]})
                ops.append({"a": "S0", "op": "solve"})
        ops = G.sprinkle_misc(rng, ops, "S0", prob=0.1)
        ops = G.sprinkle_clone(rng, ops, "S0", prob=0.05, spec=spec)
        if rng.random() < 0.06 and "D" not in actors:
            lo8, up8 = objectives.gen_box(rng, 7)
            actors["D8"] = {"kind": "solver", "objective": objectives.gen_spec(rng, 7, lo8, up8, ["linear", "paraboloid"]), "lower": lo8, "upper": up8,
                            "params": dict(spec["params"]), "listeners": [], "params_obj": "shared:P"}
            spec["params_obj"] = "shared:P"
            ops = [{"a": "D8", "op": "create"}] + ops
        from .suites import gen_self_reads
        plan = gen_self_reads(rng, G.base_plan(self.prop, run_seed, actors, ops, clock=G.gen_clock(rng)))
        u = rng.random()
        if u < 0.08 and not any(o["op"] == "setp" for o in ops):
            # a listener of the user fails once; the caller carries on: the trial sequence is still the same sequence
            G.add_listener_fault(rng, plan)
        elif u < 0.16 and not any(o["op"] == "setp" for o in ops) and not spec["params"].get("refineSolution"):
            # the objective fails once at evaluation k: whatever the call pattern (a batch the caller catches the exception from,
            # or a Solve that contains it), the completed trials that follow are the same sequence
            plan["faults"] = [{"a": "S0", "at_eval": rng.choice([1, 2, 3, rng.randint(2, 20)]), "exc": rng.choice(["ValueError", "KeyboardInterrupt", "SimFault"]),
                               "when": rng.choice(["before", "after"]), "persistent": False}]
            plan["continue_after_fault"] = True
            for _ in range(rng.randint(1, 3)):
                plan["ops"].append({"a": "S0", "op": rng.choice(["solve", "iterate", "iterate"]), "k": rng.randint(1, 6)})
        return plan

    def check_xproc(self, plan):
        import subprocess
        import tempfile
        rep = Report()
        mine = []
        for sub in plan["xproc_batch"]:
            w = World(sub, []).run()
            mine.append(w.digest())
        rep.n_exec = len(mine)
        with tempfile.NamedTemporaryFile("w", suffix=".json", delete=False) as f:
            json.dump(plan["xproc_batch"], f)
            path = f.name
        try:
            env = dict(os.environ, PYTHONHASHSEED=plan.get("hashseed", "random"))
            cp = subprocess.run([os.path.join(core.VERIF_DIR, "check"), "selftest", "plan-digests", path], capture_output=True,
                                text=True, env=env, timeout=900)
        finally:
            os.unlink(path)
        theirs = [l.split()[1] for l in cp.stdout.splitlines() if l.startswith("PLANDIGEST ")]
        if cp.returncode != 0 or len(theirs) != len(mine):
            raise core.HarnessError("plan-digest subprocess failed: rc=%s %s %s" % (cp.returncode, cp.stdout[-500:], cp.stderr[-800:]))
        rep.n_exec += len(theirs)
        for i, (a, b) in enumerate(zip(mine, theirs)):
            if a != b:
                rep.violations.append(core.Violation(self.prop, "fresh_interpreter_differs", "plan %d of the batch gives a different history in a fresh "
                                                     "interpreter (PYTHONHASHSEED=%s)" % (i, plan.get("hashseed")), "repeat"))
                break
        rep.digest = core.sha("".join(mine))
        rep.probes["fresh_interpreter_plans"] += len(mine)
        rep.nontrivial = core.short_hash(mine)
        return rep

    def check(self, plan):
        if "xproc_batch" in plan:
            return self.check_xproc(plan)
        rep = Report()
        spec = plan["actors"]["S0"]
        ops = [o for o in plan["ops"] if o["a"] == "S0"]
        twin = solo_run(spec, [{"op": "create"}, {"op": "solve"}])
        rep.n_exec = 1
        if twin["ops"] and twin["ops"][0].get("raised"):
            rep.violations.append(core.Violation(self.prop, "construct", "Solver(...) raised " + str(twin["ops"][0]["raised"]), "Solver.__init__"))
            return rep
        if twin["aborted"]:
            rep.inconclusive["twin_" + str(twin["aborted"])] += 1
            return rep
        tg = [(y, v) for (ph, y, v, f) in twin["calls"] if ph == "global"]
        tstar = len(tg)
        sumk = sum(o.get("k", 0) for o in ops if o["op"] == "iterate")
        # stop parameters changed between Solve calls: the trial sequence does not depend on them, each Solve runs to the first
        # moment ITS criterion holds: final length = max(sum k, T* of every stage)
        stage = copy.deepcopy(spec)
        count, cur_t, t_max = 0, tstar, tstar
        for o in ops:
            if o["op"] == "iterate":
                count += int(o.get("k", 0))
            elif o["op"] == "solve":
                count = max(count, cur_t)          # a Solve runs to the first moment ITS criterion holds (or does nothing)
            elif o["op"] == "setp":
                stage["params"][o["field"]] = o["value"]
                tw = solo_run(copy.deepcopy(stage), [{"op": "create"}, {"op": "solve"}])
                rep.n_exec += 1
                if tw["aborted"]:
                    rep.inconclusive["twin_" + str(tw["aborted"])] += 1
                    return rep
                cur_t = len([c for c in tw["calls"] if c[0] == "global"])
                t_max = max(t_max, cur_t)
        lfault = bool(plan.get("lfaults"))
        n = count if not lfault else sumk + t_max     # (upper bound on the trials of a run with a cut-short Solve)
        ofault = [f for f in plan.get("faults", []) if f["a"] == "S0"]
        if ofault:
            # after the failure the sequence is no longer the fault-free one, so neither is its stop index: the reference is
            # stepped as far as any Solve of the variant could possibly go
            n = sumk + int(spec["params"]["itersLimit"]) + 2
        ref = solo_run(spec, [{"op": "create"}] + [{"op": "iterate", "k": 1}] * n, None, ofault, True)
        rep.n_exec += 1

        def bad(clause, msg, locus="history"):
            rep.violations.append(core.Violation(self.prop, clause, msg, locus))
        rg = [(y, v) for (ph, y, v, f) in ref["calls"] if ph == "global" and f is None]
        if ofault and ofault[0]["at_eval"] == 1 and not ofault[0].get("persistent"):
            # the very first evaluation failed: nothing had been recorded, so the run that follows IS the fault-free run
            nff = min(n, 25)
            ff = solo_run(spec, [{"op": "create"}] + [{"op": "iterate", "k": 1}] * nff)
            rep.n_exec += 1
            fg = [(y, v) for (ph, y, v, f) in ff["calls"] if ph == "global" and f is None]
            L = min(len(fg), nff - 1)
            if not ff["aborted"] and rg[:L] != fg[:L]:
                dd = first_diff(rg[:L], fg[:L])
                bad("retry_after_first_failure", "after the objective failed on the very first evaluation, stepping on gives %d trials, first difference "
                    "from the fault-free run at trial %s: %r vs %r" % (len(rg), (dd[0] + 1) if dd else len(rg) + 1, dd[1] if dd else None, dd[2] if dd else fg[len(rg):len(rg) + 1]))
                return rep
        if ref["aborted"]:
            rep.inconclusive["ref_" + str(ref["aborted"])] += 1
            return rep
        d = first_diff(tg, rg[:len(tg)]) if not ofault else None     # (the faulted reference loses an interval: not the twin's run)
        if d:
            bad("twin_vs_stepwise", "Solve alone and one-at-a-time stepping differ at trial %d: %r vs %r" % (d[0] + 1, d[1], d[2]))
            return rep
        # variant, executed twice in this process
        w1 = World(plan, [Summarizer()]).run()
        w2 = World(copy.deepcopy(plan), [Summarizer()]).run()
        rep.n_exec += 2
        rep.absorb_world(w1)
        rep.digest = w1.digest()
        rep.sig = core.short_hash(w1.sig)
        a = w1.actors["S0"]
        if a.aborted:
            return rep
        if w1.digest() != w2.digest():
            dd = first_diff(w1.events, w2.events)
            bad("repeat_differs", "executing the same plan twice in one process gave different histories; first difference at event %d: %r vs %r" % dd, "repeat")
            return rep
        vg = [(c.y, c.value) for c in a.calls if c.phase in ("global", "global_extra") and c.completed]
        d = first_diff(vg, rg[:len(vg)])
        if d:
            bad("batching_changes_trials", "batched run (batches %r then Solve) differs from one-at-a-time stepping at trial %d: %r vs %r"
                % ([o.get("k") for o in ops if o["op"] == "iterate"], d[0] + 1, d[1], d[2]))
            return rep
        if ofault and not lfault:
            rep.probes["objective_fault_plans"] += 1
            rep.nontrivial = core.short_hash((spec["objective"], spec.get("lower"), spec["params"], "ofault", ofault, [o.get("k") for o in ops]))
            return rep
        if lfault:
            # a Solve cut short by the failing listener legitimately ends early: only the common-prefix clause applies
            rep.probes["listener_fault_plans"] += 1
            rep.nontrivial = core.short_hash((spec["objective"], spec.get("lower"), spec["params"], "lfault", plan["lfaults"]))
            return rep
        if len(vg) != n:
            bad("length", "batched run made %d global trials, expected %d (sum k=%d, T*=%d)" % (len(vg), n, sumk, tstar))
            return rep
        # repeated Solve adds nothing
        sm = w1.monitors[0].ops["S0"]
        seen_solve = False
        prev = None
        for s in sm:
            if s["op"] == "setp":
                seen_solve = False       # the criterion in force changed: the solver is no longer "finished"
            if s["op"] == "solve":
                if seen_solve and prev is not None:
                    g_now = s["results"][2] if s["results"] else None
                    if s["n_items"] != prev["n_items"] or (s["results"] and prev["results"] and s["results"][2] != prev["results"][2]):
                        bad("resolve_adds_trials", "a second Solve on a finished solver changed the search: items %d -> %d, reported trials %r -> %r"
                            % (prev["n_items"], s["n_items"], prev["results"][2] if prev["results"] else None, g_now), "Solve;Solve")
                seen_solve = True
            if s["op"] != "create":
                prev = s
        # with sum k <= T* the final result equals the twin's
        if sumk <= tstar and not spec["params"].get("refineSolution") and not any(o["op"] == "setp" for o in ops):
            tr = twin["ops"][-1]["results"]
            vr = sm[-1]["results"]
            if tr and vr and (tr[0], tr[1], tr[2], tr[4]) != (vr[0], vr[1], vr[2], vr[4]):
                bad("result", "result after batches+Solve %r differs from Solve alone %r" % (vr, tr))
        ks = [o.get("k") for o in ops if o["op"] == "iterate"]
        n_solve = sum(1 for o in ops if o["op"] == "solve")
        if (len(set(ks)) >= 2) or n_solve >= 2:
            rep.nontrivial = core.short_hash((spec["objective"], spec.get("lower"), spec["params"], ks, n_solve))
        rep.probes["overshoot"] += int(sumk > tstar)
        rep.probes["exact_stop"] += int(sumk == tstar)
        rep.probes["repeated_solve"] += int(n_solve >= 2)
        rep.probes["exhaustive_family_members"] += int("exhaustive_family" in plan)
        rep.probes["with_decoy_solver"] += int("D" in plan["actors"])
        return rep

    def extra_cases(self, tier):
        return []


# ----------------------------------------------------------------------------------- C12

class IsolationMonitor(Monitor):
    """Every actor's observable state must be unchanged by ops of *other* actors."""

    def __init__(self):
        self.before = []
        self.probe = {"foreign_op_checks": 0}

    @staticmethod
    def state_of(a):
        st = {}
        if not a.created:
            return None
        if a.solver is None:
            # the Solver object was dropped: what remains observable are the Solutions that were handed out
            return {"handed": [read_solution(s["obj"]) for s in a.solutions if "obj" in s]}
        items = a.walk()
        sd = []
        for it in items:
            try:
                sd.append((float(it.GetX()), float(it.GetZ()), core.as_floats(it.GetY().floatVariables), float(it.functionValues[0].value)))
            except BaseException as e:
                _reraise_if_harness(e)
                sd.append(("?",))
        st["sd"] = sd
        try:
            st["results"] = read_solution(a.solver.GetResults())
        except BaseException as e:
            _reraise_if_harness(e)
            st["results"] = "unreadable"
        st["handed"] = [read_solution(s["obj"]) for s in a.solutions if "obj" in s]
        return st


class C12World(World):
    """World that brackets every op with a snapshot of all *other* idle actors."""

    def exec_op(self, a, op, host=None):
        mon = self.monitors[0]
        others = [(b, b.op_no, IsolationMonitor.state_of(b)) for b in self.actors.values()
                  if b is not a and not b.active and b.created]
        super().exec_op(a, op, host)
        for b, opno, st in others:
            if b.op_no != opno or st is None:
                continue            # b itself was driven (re-entrantly) meanwhile
            mon.probe["foreign_op_checks"] += 1
            now = IsolationMonitor.state_of(b)
            if now != st:
                which = [k for k in st if st[k] != now.get(k)]
                detail = ""
                if "results" in which:
                    detail = "GetResults %r -> %r" % (st["results"], now["results"])
                elif "handed" in which:
                    detail = "a Solution handed out earlier %r -> %r" % (st["handed"], now["handed"])
                else:
                    d = first_diff(st["sd"], now["sd"])
                    detail = "search information item %r: %r -> %r" % d
                self.flag("C12", "foreign_op_changed_state", "%s's %s changed while only %s ran (%s %s): %s"
                          % (b.aid, "/".join(which), a.aid, op["op"], op.get("k", ""), detail), "interleaving")


@register
class C12(SolverSuite):
    prop = "C12"
    quick_runs = 6000
    thorough_runs = 80000
    rule = ("2-4 solver actors on different problems (different N), some created mid-run, interleaved at step boundaries and "
            "re-entrantly inside objective evaluations and listener callbacks of other actors (depth<=2). Oracle: (1) each actor's "
            "per-op observable summaries (objective log, search data, GetResults, returned Solutions) equal those of a solo run of "
            "the same ops in a fresh process; (2) no actor's state (incl. Solutions handed out earlier) changes across an op of "
            "another actor. non-trivial: >=2 actors with >=2 ops each and an A..B..A alternation; distinct = schedule signature")

    def monitors(self):
        return [IsolationMonitor(), Summarizer()]

    def cases(self, rng, tier, run_seed, idx=0):
        if tier == "thorough" and idx % 40 == 11:
            # supplement: ALL C(a+b, a) step interleavings of two solvers with a, b <= 4
            a_n, b_n = rng.randint(1, 4), rng.randint(1, 4)
            actors = {"S0": G.gen_actor(rng, max_iters=8, refine=False, shipped_prob=0.05),
                      "S1": G.gen_actor(rng, max_iters=8, refine=False, shipped_prob=0.05)}
            clock = G.gen_clock(rng)
            last = rng.choice(["results", "solve"])
            for pos in itertools.combinations(range(a_n + b_n), a_n):
                ops = [{"a": "S0", "op": "create"}, {"a": "S1", "op": "create"}]
                for i in range(a_n + b_n):
                    ops.append({"a": "S0" if i in pos else "S1", "op": "iterate", "k": 1})
                ops += [{"a": "S0", "op": last}, {"a": "S1", "op": last}]
                yield G.base_plan(self.prop, run_seed, actors, ops, clock=clock, exhaustive_family=[a_n, b_n])
            return
        yield self.gen_plan(rng, tier, run_seed)

    def gen_plan(self, rng, tier, run_seed):
        n_act = rng.choice([2, 2, 2, 3, 3, 4])
        moved = False
        actors = {}
        lists = []
        for i in range(n_act):
            aid = "S%d" % i
            L = rng.randint(2, 30)
            actors[aid] = G.gen_actor(rng, max_iters=L, refine=(rng.random() < 0.12), shipped_prob=0.08,
                                      families=(TIE_FAMILIES if rng.random() < 0.2 else None))
            if rng.random() < 0.5:
                actors[aid]["params"]["itersLimit"] = L
            pre = rng.choice([0, rng.randint(0, L), rng.randint(0, L)])
            ops = G.gen_single_ops(rng, aid, pre, with_solve=rng.random() < 0.8, results_prob=0.3,
                                   after_solve_iters=rng.choice([0, 0, rng.randint(1, 6)]), refine_ops=rng.random() < 0.25)
            if rng.random() < 0.3:
                ops.append({"a": aid, "op": "solve"})
            ops = G.sprinkle_evq(rng, ops, aid, actors[aid], prob=0.1)
            lists.append(ops)
        if n_act >= 2 and rng.random() < 0.15:
            # a parameter study: S1 is a second solver on S0's very Problem object
            L1 = rng.randint(2, 30)
            G.share_problem(rng, actors, "S0", "S1", max_iters=L1)
            lists[1] = G.gen_single_ops(rng, "S1", rng.choice([0, rng.randint(0, L1)]), with_solve=rng.random() < 0.8, results_prob=0.3)
            if rng.random() < 0.3 and actors["S0"].get("lower") is not None and actors["S0"]["objective"]["N"] <= 3:
                # one Problem object re-used for the next region: S0 solves and refines on its box, then the caller moves the
                # Problem's box and builds S1 on it, which solves and refines there (whatever the library remembers about a
                # Problem must not outlive a change of its public bounds)
                lo, up = actors["S0"]["lower"], actors["S0"]["upper"]
                sh = rng.choice([0.5, 1.0, 1.5, -1.0])
                nlo = [float("%.6g" % (l + sh * (u_ - l))) for l, u_ in zip(lo, up)]
                nup = [float("%.6g" % (u_ + sh * (u_ - l))) for l, u_ in zip(lo, up)]
                actors["S0"]["params"]["refineSolution"] = True
                actors["S1"]["params"]["refineSolution"] = True
                actors["S1"]["lower"], actors["S1"]["upper"] = nlo, nup
                actors["S0"].pop("bounds_type", None)
                actors["S1"].pop("bounds_type", None)
                s0 = [o for o in lists[0] if o["op"] in ("create", "iterate")][:3] + [{"a": "S0", "op": "solve"}]
                lists[0] = s0 + [{"a": "S0", "op": "narrow_box", "lower": nlo, "upper": nup, "rebind": rng.random() < 0.6}, {"a": "S1", "op": "create"},
                                 {"a": "S1", "op": "solve"}, {"a": "S0", "op": "results"}]
                lists[1] = []
                moved = True
            elif rng.random() < 0.5 and actors["S0"].get("lower") is not None:
                # ... and narrows the box of ITS solver's evolvent at some moment
                lo, up = actors["S0"]["lower"], actors["S0"]["upper"]
                nlo = [float("%.4g" % (l + rng.uniform(0.0, 0.3) * (u_ - l))) for l, u_ in zip(lo, up)]
                nup = [float("%.4g" % (u_ - rng.uniform(0.0, 0.3) * (u_ - l))) for l, u_ in zip(lo, up)]
                if all(l >= a_ and h <= b_ and l < h for l, h, a_, b_ in zip(nlo, nup, lo, up)):
                    i = rng.randint(1, len(lists[0]))
                    lists[0] = lists[0][:i] + [{"a": "S0", "op": "evq", "q": "setbounds_inner", "lower": nlo, "upper": nup}] + lists[0][i:]
        if rng.random() < 0.05 and not actors["S0"].get("problem_obj") and actors["S0"].get("lower") is not None \
                and actors["S1"].get("lower") is not None:
            # S0's values are numpy scalars that differ by less than 1e-150 (products of such differences underflow);
            # S1's objective has a numpy intermediate that underflows: both are silent under numpy's default error mode,
            # and whatever one solver does must not change the mode the other's objective runs under
            o0 = actors["S0"]["objective"]
            actors["S0"]["objective"] = {"family": "scaled", "N": o0["N"], "inner": o0, "k": rng.choice([1e-160, 1e-170, 1e-200])}
            actors["S0"]["value_type"] = "np.float64"
            o1 = actors["S1"]["objective"]
            actors["S1"]["objective"] = {"family": "npenv", "N": o1["N"], "inner": o1}
        for i in range(n_act):
            aid = "S%d" % i
            if rng.random() < 0.08 and not actors[aid].get("listeners"):
                # a fork: the solver is deep-copied in mid-run, the caller goes on with the copy AND keeps stepping the original
                idx = [j for j, o in enumerate(lists[i]) if o["op"] in ("iterate", "solve")]
                if idx:
                    j = rng.choice(idx)
                    lists[i] = lists[i][:j + 1] + [{"a": aid, "op": "clone", "keep": rng.randint(1, 6)}] + lists[i][j + 1:]
        u = rng.random()
        if u < 0.2:
            # user code often builds ONE SolverParameters object and hands it to several solvers
            base = actors["S0"]["params"]
            for aid in actors:
                if rng.random() < 0.8:
                    actors[aid]["params"] = dict(base)
                    actors[aid]["params_obj"] = "shared:P"
        elif u < 0.3:
            # ... or passes none at all (the library's default-argument object)
            from .suites import DEFAULT_PARAMS
            for i, aid in enumerate(sorted(actors)):
                if rng.random() < 0.8:
                    actors[aid]["params"] = dict(DEFAULT_PARAMS)
                    actors[aid]["params_obj"] = "default"
                    N = actors[aid]["objective"]["N"]
                    if N > 1:      # eps=0.01 with 20000 iterations is a long search in dimension > 1: step it only
                        lists[i] = [o for o in lists[i] if o["op"] != "solve"]
        if rng.random() < 0.12:
            # a 6-dimensional co-actor (merely constructed, or stepped a little)
            aid = "S%d" % n_act
            lo, up = objectives.gen_box(rng, 6)
            actors[aid] = {"kind": "solver", "objective": objectives.gen_spec(rng, 6, lo, up), "lower": lo, "upper": up,
                           "params": dict(actors["S0"]["params"]), "listeners": []}
            if actors["S0"].get("params_obj"):
                actors[aid]["params_obj"] = actors["S0"]["params_obj"]
            lists.insert(0, [{"a": aid, "op": "create"}] + [{"a": aid, "op": "iterate", "k": rng.randint(1, 3)} for _ in range(rng.randint(0, 2))])
        ops = interleave(rng, lists)
        plan = G.base_plan(self.prop, run_seed, actors, ops, clock=G.gen_clock(rng))
        if rng.random() < 0.6 and not moved:
            plan["nested"] = gen_nested(rng, plan, max_entries=4)
            slow = {aid for aid, a in actors.items() if a.get("params_obj") == "default" and a["objective"]["N"] > 1}
            for n in plan["nested"]:
                n["ops"] = [o for o in n["ops"] if not (o["op"] == "solve" and o["a"] in slow)]
        from .suites import gen_self_reads
        for aid in sorted(actors):
            gen_self_reads(rng, plan, aid=aid, prob=0.06, max_entries=2)
        if n_act >= 2 and rng.random() < 0.08 and actors["S0"]["objective"]["N"] == actors["S1"]["objective"]["N"] \
                and not actors["S1"].get("params_obj"):
            actors["S1"]["start_point_from"] = "S0"      # S1 is started from the very Point object S0's Solution reports
        if n_act >= 2 and rng.random() < 0.06:
            # one console listener object attached to two solvers (a reporter must never write into what it reports)
            shared = {"kind": "console", "mode": rng.choice(["full", "result", "custom"]), "iters": rng.choice([1, 3]), "shared": "L"}
            actors["S0"].setdefault("listeners", []).append(dict(shared))
            actors["S1"].setdefault("listeners", []).append(dict(shared))
        if rng.random() < 0.15 and not moved:
            # helper-function style: the caller keeps the Solution it got and lets go of the Solver; other solvers run afterwards
            aid = rng.choice(sorted(actors))
            pos = [i for i, o in enumerate(plan["ops"]) if o["a"] == aid and o["op"] in ("solve", "results")]
            if pos:
                i = rng.choice(pos)
                plan["ops"] = plan["ops"][:i + 1] + [{"a": aid, "op": "drop"}] + [o for o in plan["ops"][i + 1:] if o["a"] != aid]
                plan["nested"] = [n for n in plan.get("nested", []) if n["host"] != aid and all(o["a"] != aid for o in n["ops"])]
                # ... and more solvers are made and run afterwards (they allocate many trial items)
                both_refine = rng.random() < 0.4 and not actors[aid].get("params_obj")
                if both_refine:
                    # the dropped solver had refined its result, and so will the ones made afterwards (whatever the library
                    # remembers about a Problem must die with it: the next Problem may live at the same address)
                    actors[aid]["params"]["refineSolution"] = True
                for j in range(rng.randint(1, 2)):
                    nid = "T%d" % j
                    actors[nid] = G.gen_actor(rng, max_iters=30, refine=both_refine, shipped_prob=0.0)
                    actors[nid]["params"]["itersLimit"] = rng.randint(5, 40)
                    plan["ops"] += [{"a": nid, "op": "create"}, {"a": nid, "op": "iterate", "k": rng.randint(3, 30)},
                                    {"a": nid, "op": "solve" if both_refine else "results"}]
        if rng.random() < 0.12:
            # one solver's objective fails once (its caller catches it, or its Solve contains it) while the others carry on
            aid = rng.choice(sorted(a for a in actors if actors[a]["objective"]["N"] <= 5))
            actors[aid]["params"]["refineSolution"] = False
            plan["faults"] = [{"a": aid, "at_eval": rng.choice([2, 3, rng.randint(2, 15)]), "exc": rng.choice(["ValueError", "KeyboardInterrupt", "SimFault"]),
                               "when": rng.choice(["before", "after"]), "persistent": False, "noargs": rng.random() < 0.2}]
            plan["continue_after_fault"] = True
        return plan

    def check(self, plan):
        srv = PristineServer()       # forked before anything runs here: solo references start from the pristine state
        try:
            return self._check(plan, srv)
        finally:
            srv.close()

    def _check(self, plan, srv):
        rep = Report()
        mons = self.monitors()
        w = C12World(plan, mons).run()
        rep.absorb_world(w)
        rep.digest = w.digest()
        rep.sig = core.short_hash(w.sig)
        rep.probes.update(mons[0].probe)
        sm = mons[1]
        # executed op order per actor (top-level and re-entrant), as it happened
        per_actor = {}
        for (aid, kind, k, host) in w.sig:
            per_actor.setdefault(aid, []).append((kind, k, host))
        n_alt = 0
        seq = [s[0] for s in w.sig]
        for i in range(len(seq) - 2):
            if seq[i] != seq[i + 1] and seq[i] in seq[i + 2:]:
                n_alt += 1
                break
        for aid in sorted(w.actors):
            a = w.actors[aid]
            mine = sm.ops.get(aid, [])
            if not mine:
                continue
            ops = []
            for s in mine:
                o = {"op": s["op"]}
                if s["op"] == "iterate":
                    o["k"] = s["k"]
                if s["op"] == "refine":
                    o["n"] = s["k"]
                if s["op"] in ("evq", "sdq", "setp", "clone", "narrow_box"):
                    o = dict(s["evq"])
                    o.pop("keep", None)      # alone, nobody keeps driving the original of a deep copy
                ops.append(o)
            solo = srv.call(solo_run, plan["actors"][aid], ops, None, [f for f in plan.get("faults", []) if f["a"] == aid],
                            plan.get("continue_after_fault", False))
            rep.n_exec += 1
            d = first_diff([_strip(s) for s in mine], [_strip(s) for s in solo["ops"]])
            if d:
                i, got, want = d
                field = [k for k in (got or {}) if want is None or got.get(k) != want.get(k)] if got else ["missing"]
                detail = ""
                if got and want:
                    f0 = field[0] if field else "?"
                    detail = "%s: interleaved %r, alone %r" % (f0, got.get(f0), want.get(f0))
                    if f0 in ("calls_h", "n_calls"):
                        mc = [(c.y, c.value) for c in a.calls if c.phase != "probe"]
                        dd = first_diff(mc, [(y, v) for (ph, y, v, f) in solo["calls"]])
                        if dd:
                            detail = "objective log differs at call %d: interleaved %r, alone %r" % (dd[0] + 1, dd[1], dd[2])
                rep.violations.append(core.Violation(self.prop, "differs_from_solo", "%s: after its op #%d (%s) the solver differs from running it alone: %s"
                                                     % (aid, i, got.get("op") if got else None, detail), "interleaving"))
                break
        n_busy = sum(1 for aid, l in per_actor.items() if len([x for x in l if x[0] != "create"]) >= 2)
        if n_busy >= 2 and n_alt:
            rep.nontrivial = rep.sig
        rep.probes["nested_fired"] += w.fired["obj_reenter"] + w.fired["listener_reenter"]
        rep.probes["exhaustive_family_members"] += int("exhaustive_family" in plan)
        return rep


def _strip(s):
    d = dict(s)
    for k in ("results", "returned"):
        if d.get(k) is not None:
            d[k] = tuple(d[k])
    if isinstance(d.get("evq"), dict) and "keep" in d["evq"]:
        d["evq"] = {k: v for k, v in d["evq"].items() if k != "keep"}
    return d


# ----------------------------------------------------------------------------------- C13

ALL_CB = ["BeforeMethodStart", "OnEndIteration", "OnMethodStop"]
_THIRD_PARTY = ("site-packages" + os.sep,)


def gen_listeners(rng, N, n_trials_hint):
    """A listener combination valid for dimension N."""
    out = []
    n = rng.choice([1, 1, 2, 2, 3])
    for _ in range(n):
        u = rng.random()
        if u < 0.5:
            k = rng.randint(0, 7)
            ls = {"kind": "recording", "overrides": [c for i, c in enumerate(ALL_CB) if k >> i & 1]}
            v = rng.random()
            if v < 0.2:
                ls["via"] = "inherited"     # callbacks defined in an intermediate class
            elif v < 0.3:
                ls["via"] = "mixin"         # callbacks come from a mixin
            elif v < 0.38 and ls["overrides"]:
                ls["via"] = "console"       # subclass of the shipped console listener overriding a subset (and calling super)
            elif v < 0.44:
                ls["via"] = "router"        # attaches a child listener to the solver from inside its BeforeMethodStart
                if "BeforeMethodStart" not in ls["overrides"]:
                    ls["overrides"] = ["BeforeMethodStart"] + ls["overrides"]
            elif v < 0.50:
                ls["via"] = "eq"            # instances compare equal to each other (value semantics): two of them are attached
                out.append(dict(ls))
            out.append(ls)
        elif u < 0.68:
            out.append({"kind": "console", "mode": rng.choice(["full", "custom", "result"]), "iters": rng.choice([1, 2, 5, 100])})
        elif u < 0.82:
            mode = rng.choice(["objective function", "only points", "only points"])
            if N == 1 and n_trials_hint >= 6 and rng.random() < 0.3:
                mode = "interpolation"
            if rng.random() < 0.02:
                mode = "approximation"
            out.append({"kind": "static", "file": "s.png", "path": rng.choice(["", "outdir"]), "indx": rng.randrange(N),
                        "bottom": rng.random() < 0.3, "mode": mode})
        elif u < 0.9:
            if N >= 2:
                i, j = rng.sample(range(N), 2)
                out.append({"kind": "staticND", "file": "nd.png", "path": rng.choice(["", "outdir"]), "vars": [i, j],
                            "mode": "lines layers", "calc": rng.choice(["objective function", "interpolation"])})
            else:
                out.append({"kind": "static", "file": "s.png", "path": "", "indx": 0, "bottom": False, "mode": "only points"})
        elif u < 0.95:
            if N == 1:
                out.append({"kind": "anim", "file": "a.png", "path": rng.choice(["", "outdir"]), "bottom": rng.random() < 0.3,
                            "obj": rng.random() < 0.5})
            else:
                i, j = rng.sample(range(N), 2)
                out.append({"kind": "animND", "file": "a.png", "path": rng.choice(["", "outdir"]), "vars": [i, j],
                            "obj": rng.random() < 0.3})
        else:
            out.append({"kind": "recording", "overrides": []})
    return out


_NUMERIC_LIBS = ("scipy" + os.sep + "interpolate", "scipy" + os.sep + "linalg", "numpy" + os.sep + "linalg", os.sep + "sklearn" + os.sep)


def _is_numeric_degeneracy(exc):
    import traceback as _tb
    return any(any(lib in fr.filename for lib in _NUMERIC_LIBS) for fr in _tb.extract_tb(exc.__traceback__))


_RES_RE = {
    "nglobal": re.compile(r"global iteration count:\s+(\S+)"),
    "nlocal": re.compile(r"local iteration count:\s+(\S+)"),
    "point": re.compile(r"solution point:(.*?)\|\s*solution value:", re.S),
    "value": re.compile(r"solution value:\s+(\S+)"),
    "acc": re.compile(r"accuracy:\s+(\S+)"),
}


def parse_console_results(text):
    """All 'Result' blocks in a console chunk."""
    out = []
    parts = re.split(r"\|\s*Result\s*\|", text)
    for part in parts[1:]:
        d = {}
        for k, rx in _RES_RE.items():
            m = rx.search(part)
            d[k] = " ".join(m.group(1).replace("|", " ").split()) if m else None
        out.append(d)
    return out


class C13Monitor(Monitor):
    def __init__(self):
        self.op_marks = {}    # aid -> list of (op dict, n_calls_before, n_calls_after, cb_events index range, raised, exc, result reading, op_no)

    def on_op_end(self, w, a, op, outcome):
        if op["op"] == "create" or outcome.get("self_read"):
            return
        lst = self.op_marks.setdefault(a.aid, [])
        prev_calls = lst[-1]["calls_after"] if lst else 0
        prev_ev = lst[-1]["ev_after"] if lst else 0
        real = [c for c in a.calls if c.phase != "probe"]
        lst.append({"op": op, "calls_before": prev_calls, "calls_after": len(real), "ev_before": prev_ev,
                    "ev_after": len(a.cb_events), "raised": outcome.get("raised"), "exc": outcome.get("exc"),
                    "ret": read_solution(outcome["result"]) if outcome.get("result") is not None else None,
                    "ret_str": _point_str(outcome.get("result")), "op_no": a.op_no})


def _point_str(sol):
    if sol is None:
        return None
    try:
        return str(sol.bestTrials[0].point.floatVariables)
    except BaseException:
        return None


@register
class C13(SolverSuite):
    prop = "C13"
    quick_runs = 3000
    thorough_runs = 36000
    rule = ("listener actors: Recording(S) = subclass of the base Listener overriding exactly the subset S of the three callbacks "
            "(all 8 subsets) and the shipped console/static/staticND/animation/animationND listeners in configurations valid for "
            "the dimension, 1-3 listeners per solver, drivers mixing DoGlobalIteration(k) and Solve. Oracle: attaching/running "
            "raises nothing; notification history (BeforeMethodStart once before the first objective call; one OnEndIteration per "
            "DoGlobalIteration call with exactly that call's new trials in order; one OnMethodStop per Solve after the last "
            "evaluation carrying the returned solution); objective log and result equal a twin run with no listeners in a fresh "
            "process; console final block equals the returned solution. non-trivial: >=2 listeners or a proper non-empty subset S, "
            "and the plan has both iterate(k>1) and solve; distinct = hash of (listener config, batch sizes, N)")

    def monitors(self):
        return [C13Monitor()]

    def gen_plan(self, rng, tier, run_seed):
        L = rng.randint(3, 30)
        spec = G.gen_actor(rng, max_iters=L, refine=(rng.random() < 0.15), shipped_prob=0.1, small_iters_prob=0.1)
        N = spec["objective"]["N"]
        spec["listeners"] = gen_listeners(rng, N, L)
        pure = len(spec["listeners"]) == 1 and spec["listeners"][0]["kind"] == "recording" and rng.random() < 0.5
        spec["brackets"] = not pure
        spec["params"]["itersLimit"] = min(spec["params"]["itersLimit"], L)
        pre = rng.choice([0, rng.randint(0, L), rng.randint(2, 8)])
        ops = G.gen_single_ops(rng, "S0", pre, with_solve=rng.random() < 0.9, results_prob=0.1,
                               after_solve_iters=rng.choice([0, 0, rng.randint(1, 4)]))
        if rng.random() < 0.2:
            ops.append({"a": "S0", "op": "solve"})
        actors = {"S0": spec}
        if rng.random() < 0.25:
            # a second solver with its own recording listeners, interleaved: each listener must hear its own solver only
            s1 = G.gen_actor(rng, max_iters=12, refine=False, shipped_prob=0.0)
            s1["listeners"] = [{"kind": "recording", "overrides": list(ALL_CB)}]
            if rng.random() < 0.5:
                s1["listeners"].append({"kind": "recording", "overrides": [rng.choice(ALL_CB)]})
            s1["params"]["itersLimit"] = min(s1["params"]["itersLimit"], 12)
            if rng.random() < 0.4:
                # one console listener object attached to both solvers (each final report must still be its own solver's)
                shared = {"kind": "console", "mode": rng.choice(["full", "custom", "result"]), "iters": rng.choice([1, 2, 5]), "shared": "L"}
                s1["listeners"].append(dict(shared))
                spec["listeners"].append(dict(shared))
                spec["brackets"] = True
            actors["S1"] = s1
            ops1 = G.gen_single_ops(rng, "S1", rng.randint(0, 8), with_solve=rng.random() < 0.8)
            ops = interleave(rng, [ops, ops1])
        if rng.random() < 0.04 and "S1" not in actors:
            # a long run (hundreds of trials) observed by recording / console listeners only
            spec["listeners"] = [ls for ls in spec["listeners"] if ls["kind"] in ("recording", "console")] or \
                [{"kind": "recording", "overrides": list(ALL_CB)}]
            n_long = rng.randint(250, 600)
            spec["params"]["itersLimit"] = n_long
            spec["params"]["eps"] = G.EPS_MIN[N]
            spec["params"]["refineSolution"] = False
            ops = [{"a": "S0", "op": "create"}] + [{"a": "S0", "op": "iterate", "k": k} for k in G.gen_batches(rng, rng.randint(0, n_long), style="big")]
            ops.append({"a": "S0", "op": "solve"})
        elif rng.random() < 0.12 and "S1" not in actors and any(o["op"] == "solve" for o in ops):
            # the user raises the budget (or tightens eps) on the parameters object and resumes: one more final notification
            for _ in range(rng.randint(1, 2)):
                if rng.random() < 0.7:
                    ops.append({"a": "S0", "op": "setp", "field": "itersLimit", "value": int(L + rng.randint(1, 12) + 12 * _)})
                else:
                    ops.append({"a": "S0", "op": "setp", "field": "eps", "value": float("%.3g" % (spec["params"]["eps"] * 0.3))})
                ops.append({"a": "S0", "op": "solve"})
        if rng.random() < 0.1 and "S1" not in actors:
            idx = [i for i, o in enumerate(ops) if o["op"] in ("iterate", "solve")]
            if idx:
                i = rng.choice(idx)
                ops = ops[:i + 1] + [{"a": "S0", "op": "addl"}] + ops[i + 1:] + [{"a": "S0", "op": "iterate", "k": rng.randint(1, 4)}, {"a": "S0", "op": "solve"}]
                spec["brackets"] = True
        plan = G.base_plan(self.prop, run_seed, actors, ops, clock=G.gen_clock(rng))
        if rng.random() < 0.15:
            # fault configuration: the objective raises once (inside a batch: the caller catches it; inside Solve: contained)
            # and the caller keeps driving - every later notification must still carry exactly its own call's new trials
            spec["params"]["refineSolution"] = False
            spec["brackets"] = True
            plan["faults"] = [{"a": "S0", "at_eval": rng.choice([2, 3, rng.randint(2, 12), rng.randint(2, 25)]),
                               "exc": rng.choice(["ValueError", "KeyboardInterrupt", "SimFault"]), "when": rng.choice(["before", "after"]),
                               "persistent": False, "noargs": rng.random() < 0.2}]
            plan["continue_after_fault"] = True
            for _ in range(rng.randint(1, 3)):
                plan["ops"].append({"a": "S0", "op": "iterate", "k": rng.randint(1, 5)})
            if rng.random() < 0.5:
                plan["ops"].append({"a": "S0", "op": "solve"})
        return plan

    def check(self, plan):
        srv = PristineServer()       # forked before anything runs here: the listener-free twin starts from the pristine state
        try:
            return self._check(plan, srv)
        finally:
            srv.close()

    def _check(self, plan, srv):
        rep = Report()
        mons = self.monitors()
        w = World(plan, mons).run()
        rep.absorb_world(w)
        rep.digest = w.digest()
        rep.sig = core.short_hash(w.sig)
        a = w.actors["S0"]
        spec = plan["actors"]["S0"]
        P = self.prop
        from .world import is_injected

        def bad(clause, msg, locus="listener"):
            rep.violations.append(core.Violation(P, clause, msg, locus))
        if a.construct_error:
            bad("construct", "Solver(...) raised " + a.construct_error, "Solver.__init__")
            return rep
        marks = mons[0].op_marks.get("S0", [])
        # (1) plumbing raises nothing
        for mk in marks:
            if mk["raised"]:
                exc = mk["exc"]
                if exc is not None and is_injected(exc) and mk["op"]["op"] != "solve":
                    continue     # the injected objective failure, propagated by DoGlobalIteration to the caller (expected)
                if exc is not None and _is_numeric_degeneracy(exc):
                    # interp1d / Rbf / MLP rejecting degenerate search data (duplicate abscissae, singular
                    # matrix, too few points) in the 'interpolation'/'approximation' painter modes
                    rep.inconclusive["painter_numeric"] += 1
                    return rep
                if "outside of interval" in mk["raised"]:
                    rep.inconclusive["float_exhausted"] += 1
                    return rep
                bad("raised", "%s with listeners %s raised %s" % (mk["op"]["op"], _lst_names(spec), mk["raised"]), mk["op"]["op"])
                return rep
        if a.aborted:
            rep.inconclusive["aborted_" + a.aborted] += 1
            return rep
        def notifications(a, spec, marks):
            real = [c for c in a.calls if c.phase != "probe"]
            # (2) notification history of every recording listener
            eff = list(enumerate(spec["listeners"]))
            # a child attached by a router listener during BeforeMethodStart is attached before the first trial: full contract
            # ("it is told once before the first trial ...")
            eff += [(lid + 100, {"kind": "recording", "overrides": list(ALL_CB), "child": True})
                    for lid, ls in enumerate(spec["listeners"]) if ls.get("via") == "router"]
            # listeners attached in mid-run: owed every notification of the calls made after they were attached (the one-time
            # BeforeMethodStart is over by then)
            late = {lid: ncalls for lid, ncalls in a.late_listeners}
            eff += [(lid, {"kind": "recording", "overrides": ["OnEndIteration", "OnMethodStop"], "late": True}) for lid in sorted(late)]
            for lid in sorted(late):
                nb = len([e for e in a.cb_events if e[1] == lid and e[2] == "BeforeMethodStart"])
                if nb > 1:
                    bad("before_start_count", "a listener attached in mid-run was told BeforeMethodStart %d times" % nb)
                    return True
            for lid, ls in eff:
                if ls["kind"] != "recording":
                    continue
                ov = set(ls["overrides"])
                evs = [e for e in a.cb_events if e[1] == lid]
                if "BeforeMethodStart" in ov:
                    bms = [e for e in evs if e[2] == "BeforeMethodStart"]
                    if real and len(bms) != 1:
                        bad("before_start_count", "BeforeMethodStart delivered %d times (listener %d), expected once" % (len(bms), lid))
                    elif bms and bms[0][3]["n_calls_before"] != 0:
                        bad("before_start_order", "BeforeMethodStart delivered after %d objective evaluations" % bms[0][3]["n_calls_before"])
                    elif bms and real and not bms[0][0] < real[0].seq:
                        bad("before_start_order", "BeforeMethodStart delivered after the first trial")
                for mk in marks:
                    kind = mk["op"]["op"]
                    if ls.get("late") and mk["op_no"] < late[lid]:
                        continue         # (an operation that ran before this listener was attached)
                    if kind == "addl":
                        continue
                    if ls.get("child"):
                        # the router attaches its child during ITS BeforeMethodStart: calls that were over before (zero-size
                        # batches before the first trial) owe the child nothing
                        at = [i for i, e in enumerate(a.cb_events) if e[1] == lid - 100 and e[2] == "BeforeMethodStart"]
                        if not at or mk["ev_after"] <= at[0]:
                            continue
                    if mk["raised"]:
                        # a call that raised (injected failure) promises no notification; if one is sent all the same, it
                        # may only speak of trials that were completed
                        done_pts = [c.y for c in real[mk["calls_before"]:mk["calls_after"]] if c.completed]
                        for e in a.cb_events[mk["ev_before"]:mk["ev_after"]]:
                            if e[1] == lid and e[2] == "OnEndIteration" and any(y not in done_pts for y in (e[3].get("ys") or [])):
                                bad("end_iteration_points", "the DoGlobalIteration call that failed announced %r as finished trials; completed were %r"
                                    % (e[3].get("ys"), done_pts))
                                return True
                        continue
                    oe = [e for e in a.cb_events[mk["ev_before"]:mk["ev_after"]] if e[1] == lid]
                    ends = [e for e in oe if e[2] == "OnEndIteration"]
                    stops = [e for e in oe if e[2] == "OnMethodStop"]
                    op_calls = [c for c in real[mk["calls_before"]:mk["calls_after"]]]
                    if "OnEndIteration" in ov:
                        if kind == "iterate":
                            if len(ends) != 1:
                                bad("end_iteration_count", "DoGlobalIteration(%d) delivered OnEndIteration %d times, expected once" % (mk["op"]["k"], len(ends)))
                                return True
                            ys = ends[0][3].get("ys")
                            want = [c.y for c in op_calls if c.completed]
                            if ys != want:
                                bad("end_iteration_points", "OnEndIteration after DoGlobalIteration(%d) carried points %r, the call's new trials are %r" % (mk["op"]["k"], ys, want))
                                return True
                            zs = ends[0][3].get("zs")
                            if zs != [c.value for c in op_calls if c.completed]:
                                bad("end_iteration_points", "OnEndIteration carried values %r, objective returned %r" % (zs, [c.value for c in op_calls]))
                                return True
                        elif kind == "solve":
                            got = []
                            for e in ends:
                                got.extend(e[3].get("ys") or [])
                                if len(e[3].get("ys") or []) != 1:
                                    bad("end_iteration_points", "inside Solve an OnEndIteration carried %d points, expected 1" % len(e[3].get("ys") or []))
                                    return True
                            nloc = len([c for c in op_calls if c.phase == "local"])
                            want = [c.y for c in op_calls if c.completed and c.phase != "local"] if a.brackets else None
                            if want is None:
                                # no phase information without brackets: the delivered points must be a prefix of the op's calls
                                want = [c.y for c in op_calls if c.completed][:len(got)]
                                if not spec["params"].get("refineSolution") and len(got) != len(op_calls):
                                    want = [c.y for c in op_calls if c.completed]
                            if got != want:
                                bad("end_iteration_points", "during Solve OnEndIteration delivered %d trials %r..., the global search evaluated %d: %r..." % (len(got), got[:3], len(want), want[:3]))
                                return True
                        elif ends:
                            bad("end_iteration_count", "%s delivered OnEndIteration" % kind)
                    if "OnMethodStop" in ov:
                        if kind == "solve":
                            if len(stops) != 1:
                                bad("method_stop_count", "Solve delivered OnMethodStop %d times, expected once" % len(stops))
                                return True
                            pl = stops[0][3]
                            if pl.get("nargs") != 3:
                                bad("method_stop_args", "OnMethodStop received %r arguments" % pl.get("nargs"))
                            elif pl.get("sol") is not None and mk["ret"] is not None and tuple(pl["sol"]) != tuple(mk["ret"]):
                                bad("method_stop_solution", "OnMethodStop carried solution %r, Solve returned %r" % (pl["sol"], mk["ret"]))
                            if pl["n_calls_before"] != mk["calls_after"] and a.brackets:
                                bad("method_stop_order", "OnMethodStop delivered before the last evaluation (%d of %d done)" % (pl["n_calls_before"], mk["calls_after"]))
                        elif stops:
                            bad("method_stop_count", "%s delivered OnMethodStop" % kind)
            return False
        if "S1" in plan["actors"]:
            a1 = w.actors["S1"]
            m1 = mons[0].op_marks.get("S1", [])
            if a1.created and not a1.aborted and not any(mk["raised"] for mk in m1):
                notifications(a1, plan["actors"]["S1"], m1)
                rep.probes["second_solver_with_listeners"] += 1
                if rep.violations:
                    return rep
        notifications(a, spec, marks)
        real = [c for c in a.calls if c.phase != "probe"]
        if rep.violations:
            return rep
        # (3) non-interference: twin with no listeners at all, fresh process
        twin_spec = copy.deepcopy(spec)
        twin_spec["listeners"] = []
        twin_spec["brackets"] = False
        ops = [o for o in plan["ops"] if o["a"] == "S0"]
        twin = srv.call(solo_run, twin_spec, ops, plan.get("clock"), [f for f in plan.get("faults", []) if f["a"] == "S0"],
                        plan.get("continue_after_fault", False))
        rep.n_exec += 1
        rep.probes["fault_configuration"] += int(bool(a.fired_faults))
        mine = [(c.y, c.value) for c in real]
        theirs = [(y, v) for (ph, y, v, f) in twin["calls"]]
        d = first_diff(mine, theirs)
        if d:
            bad("interference_trials", "with listeners %s the objective log differs from the listener-free run at call %d: %r vs %r" % (_lst_names(spec), d[0] + 1, d[1], d[2]), "non-interference")
            return rep
        tsol = [s for s in twin["solutions"] if s.get("kind") == "solve"]
        msol = [s for s in a.solutions if s.get("kind") == "solve"]
        for s1, s2 in zip(msol, tsol):
            k1 = (s1.get("point"), s1.get("value"), s1.get("nglobal"), s1.get("nlocal"), s1.get("accuracy"))
            k2 = (s2.get("point"), s2.get("value"), s2.get("nglobal"), s2.get("nlocal"), s2.get("accuracy"))
            if k1 != k2:
                bad("interference_result", "with listeners %s Solve returned %r, without listeners %r" % (_lst_names(spec), k1, k2), "non-interference")
                return rep
        # (4) console final report
        cons = [ls for ls in spec["listeners"] if ls["kind"] == "console" or ls.get("via") == "console"]
        if cons:
            for mk in marks:
                if mk["op"]["op"] != "solve" or mk["ret"] is None:
                    continue
                text = "".join(c[2] for c in w.stdout_chunks if c[1] == mk["op_no"] and c[0] == "S0")
                blocks = parse_console_results(text)
                if len(blocks) != len(cons):
                    bad("console_report", "Solve with %d console listener(s) printed %d final reports" % (len(cons), len(blocks)), "console")
                    return rep
                ret = mk["ret"]
                for b in blocks:
                    exp = {"nglobal": str(ret[2]), "nlocal": str(ret[3]), "point": " ".join((mk["ret_str"] or "").split()),
                           "value": "%.8f" % ret[1], "acc": "%.8f" % ret[4]}
                    for k in exp:
                        if b.get(k) != exp[k]:
                            bad("console_report", "console final report shows %s=%r, the returned solution has %r" % (k, b.get(k), exp[k]), "console")
                            return rep
                rep.probes["console_reports_checked"] += len(blocks)
        for ls in spec["listeners"]:
            rep.probes["listener_" + ls["kind"] + ("_" + ls.get("mode", "") if ls["kind"] in ("console", "static") else "")
                       + ("_via_" + ls["via"] if ls.get("via") else "")] += 1
        rep.probes["figure_writes"] += len(w.fs.files)
        rep.probes["mkdir"] += len(w.fs.dirs)
        ks = [o.get("k") for o in ops if o["op"] == "iterate"]
        proper = any(ls["kind"] == "recording" and 0 < len(ls["overrides"]) < 3 for ls in spec["listeners"])
        if (len(spec["listeners"]) >= 2 or proper) and any(k and k > 1 for k in ks) and any(o["op"] == "solve" for o in ops):
            rep.nontrivial = core.short_hash((spec["listeners"], ks, spec["objective"]["N"]))
        return rep


def _lst_names(spec):
    out = []
    for ls in spec["listeners"]:
        if ls["kind"] == "recording":
            out.append("Recording%s(%s)" % ("/" + ls["via"] if ls.get("via") else "", ",".join(ls["overrides"])))
        else:
            out.append(ls["kind"] + ":" + str(ls.get("mode", "")))
    return "[" + "; ".join(out) + "]"


# ----------------------------------------------------------------------------------- C16

FAULT_KINDS = ["ValueError", "ZeroDivisionError", "MemoryError", "StopIteration", "KeyboardInterrupt", "SystemExit",
               "GeneratorExit", "SimFault", "OverflowError", "FloatingPointError", "LibraryIndexError"]
_TWIN_CACHE = {}


def _twin_for(spec, ops=None):
    """Fault-free reference run of the same spec under the same driver ops (default: Solve only)."""
    ops = [{k: v for k, v in o.items() if k != "a"} for o in (ops or [{"op": "create"}, {"op": "solve"}])]
    key = json.dumps([spec, ops], sort_keys=True)
    if key not in _TWIN_CACHE:
        if len(_TWIN_CACHE) > 256:
            _TWIN_CACHE.clear()
        _TWIN_CACHE[key] = fork_call(solo_run, spec, ops)
    return _TWIN_CACHE[key]


@register
class C16(SolverSuite):
    prop = "C16"
    level = "fault_enumeration"
    quick_runs = 60
    thorough_runs = 800
    chunk = 1
    rule = ("for every sampled (objective, box, parameters) the fault-free twin gives T trials; then EVERY evaluation index k in "
            "2..T (sampled when T>40 in the quick tier, T>120 in the thorough tier) x every exception kind (ValueError, ZeroDivisionError, MemoryError, StopIteration, "
            "KeyboardInterrupt, SystemExit, GeneratorExit, private BaseException) x {raised before / after the value holder was "
            "written} is executed as its own simulated run (driver: optional DoGlobalIteration prefix < k, then Solve). Oracle: "
            "Solve returns; objective log = twin's first k-1 trials + the failed call; reported trials = k-1; best = a minimiser of "
            "the first k-1 values; record rules hold with k+1 items and no item at the failed coordinate; OnMethodStop once. "
            "evaluations = fault runs; non-trivial = T>=4; distinct = (spec hash, k, kind, when)")

    def monitors(self):
        return [C06Monitor()]

    def cases(self, rng, tier, run_seed, idx=0):
        if idx % 5 == 3:
            for p in self.cases_refine(rng, tier, run_seed):
                yield p
            return
        if idx % 5 == 1:
            for p in self.cases_refined_then_fault(rng, tier, run_seed):
                yield p
            return
        L = rng.randint(3, 40) if rng.random() < 0.9 else rng.randint(40, 150)
        long_run = idx % 30 == 17
        if long_run:
            L = rng.randint(400, 900)      # hundreds of completed trials before the failure (anything that walks the whole record)
        spec = G.gen_actor(rng, max_iters=L, refine=False, shipped_prob=0.08, small_iters_prob=0.05,
                           families=(TIE_FAMILIES if rng.random() < 0.25 else None), dims=((1, 2) if long_run else (1, 2, 3, 4, 5)))
        spec["params"]["itersLimit"] = min(spec["params"]["itersLimit"], L)
        if long_run:
            spec["params"]["itersLimit"] = L
            spec["params"]["eps"] = G.EPS_MIN[spec["objective"]["N"]]
        twin = _twin_for(spec)
        if twin["aborted"] or (twin["ops"] and twin["ops"][0].get("raised")):
            yield G.base_plan(self.prop, run_seed, {"S0": spec}, [{"a": "S0", "op": "create"}, {"a": "S0", "op": "solve"}],
                              faults=[{"a": "S0", "at_eval": 2, "exc": "ValueError", "when": "before"}])
            return
        T = len([c for c in twin["calls"] if c[0] == "global"])
        if T < 2:
            yield G.base_plan(self.prop, run_seed, {"S0": spec}, [{"a": "S0", "op": "create"}, {"a": "S0", "op": "solve"}],
                              faults=[{"a": "S0", "at_eval": 2, "exc": "ValueError", "when": "before"}])
            return
        ks = list(range(2, T + 1))
        cap = 40 if tier == "quick" else 120     # (one spec is one task: a long serial tail otherwise)
        if long_run:
            cap = 6
            ks = [k for k in ks if k > 300] or ks
        if len(ks) > cap:
            ks = sorted(rng.sample(ks, cap))
        clock = G.gen_clock(rng)
        plain_listeners = all(l.get("kind") == "recording" for l in spec.get("listeners") or [])
        for k in ks:
            for exc in FAULT_KINDS:
                for when in ("before", "after"):
                    pre = rng.choice([0, 0, rng.randint(0, k - 1)])
                    ops = [{"a": "S0", "op": "create"}] + [{"a": "S0", "op": "iterate", "k": b} for b in (G.gen_batches(rng, pre) if pre else [])]
                    ops.append({"a": "S0", "op": "solve"})
                    if rng.random() < 0.2:
                        ops.append({"a": "S0", "op": "results"})
                    persistent = rng.random() < 0.3
                    if rng.random() < 0.3:
                        # the caller simply tries again: after a transient failure the search carries on; if the objective is
                        # still broken, the second Solve fails on its very first evaluation and must come back just the same
                        ops.append({"a": "S0", "op": "solve"})
                    ft = {"a": "S0", "at_eval": k, "exc": exc, "when": when, "persistent": persistent, "noargs": rng.random() < 0.3}
                    if plain_listeners and rng.random() < 0.15:
                        ft["strict_warnings"] = True      # the failure is met in a process that turns warnings into errors
                    yield G.base_plan(self.prop, run_seed, {"S0": spec}, ops, clock=clock, faults=[ft])

    def cases_refined_then_fault(self, rng, tier, run_seed):
        """Solve with refinement; the budget is raised and the search goes on; the objective then fails: the result may not
        be worse than the refined optimum that had been reported (it is an evaluated trial, and so are all completed ones)."""
        L = rng.randint(4, 25)
        spec = G.gen_actor(rng, max_iters=L, refine=True, shipped_prob=0.0, small_iters_prob=0.0, dims=(1, 2),
                           families=["cones", "paraboloid", "sines", "paraboloid"])      # smooth: the refinement really improves
        spec["params"]["itersLimit"] = L
        spec["params"]["eps"] = G.EPS_MIN[spec["objective"]["N"]]
        for _ in range(14):
            extra = rng.randint(10, 80)
            ops = [{"a": "S0", "op": "create"}, {"a": "S0", "op": "solve"}, {"a": "S0", "op": "setp", "field": "refineSolution", "value": False},
                   {"a": "S0", "op": "setp", "field": "itersLimit", "value": L + extra}, {"a": "S0", "op": "solve"}]
            yield G.base_plan(self.prop, run_seed, {"S0": copy.deepcopy(spec)}, ops, clock=G.gen_clock(rng), refined_then_fault=True,
                              faults=[{"a": "S0", "at_eval": 10 ** 6, "rel_to_second_solve": rng.randint(max(1, extra // 2), extra), "exc": rng.choice(FAULT_KINDS),
                                       "when": rng.choice(["before", "after"]), "persistent": False}])

    def check_refined_then_fault(self, plan, rep, bad):
        # first pass without the fault: where does the second Solve start?
        free = copy.deepcopy(plan)
        free["faults"] = []
        w0 = World(free, []).run()
        a0 = w0.actors["S0"]
        if a0.aborted or len(a0.solve_info) < 2:
            rep.inconclusive["refined_then_fault_not_applicable"] += 1
            return rep
        n_before = len([c for c in a0.calls if c.phase != "probe" and c.op_no <= a0.solve_info[0]["op_no"]])
        n_total = len([c for c in a0.calls if c.phase != "probe"])
        ft = plan["faults"][0]
        k = n_before + int(ft["rel_to_second_solve"])
        if k > n_total:
            rep.inconclusive["fault_beyond_run"] += 1
            return rep
        p2 = copy.deepcopy(plan)
        p2["faults"][0]["at_eval"] = k
        w = World(p2, []).run()
        rep.absorb_world(w)
        rep.digest = w.digest()
        rep.sig = core.short_hash((w.sig, k, ft["exc"]))
        a = w.actors["S0"]
        tag = "fault %s at evaluation %d of a search continued after a refining Solve" % (ft["exc"], k)
        if not a.fired_faults or len(a.solve_info) < 2:
            rep.inconclusive["fault_not_fired"] += 1
            return rep
        if a.solve_info[1]["raised"]:
            bad("escaped", "%s: Solve did not return, it raised %s" % (tag, a.solve_info[1]["raised"]), ft["exc"])
            return rep
        sols = [s for s in a.solutions if s["kind"] == "solve"]
        if len(sols) < 2 or "error" in sols[1] or "error" in sols[0]:
            bad("result", "%s: unreadable result" % tag)
            return rep
        done = [c for c in a.calls if c.completed and c.phase != "probe"]
        hit = [c for c in done if c.y == sols[1]["point"]]
        if not hit or not any(c.value == sols[1]["value"] for c in hit):
            bad("best_value", "%s: the result %r at %r is not a completed evaluation with its value" % (tag, sols[1]["value"], sols[1]["point"]))
            return rep
        if sols[1]["value"] > sols[0]["value"]:
            bad("best_value", "%s: the result value %r is worse than the optimum %r the first Solve had reported" % (tag, sols[1]["value"], sols[0]["value"]))
            return rep
        gl = [c.value for c in done if c.phase in ("global", "global_extra")]
        if gl and sols[1]["value"] > min(gl):
            bad("best_value", "%s: the result value %r is worse than the best completed global trial %r" % (tag, sols[1]["value"], min(gl)))
            return rep
        rep.probes["refined_then_fault_runs"] += 1
        rep.nontrivial = core.short_hash((plan["actors"]["S0"]["objective"], plan["actors"]["S0"].get("lower"), k, ft["exc"], "rtf"))
        return rep

    def cases_refine(self, rng, tier, run_seed):
        """refineSolution=True: the failing evaluation ranges over the global AND the local phase."""
        L = rng.randint(3, 25)
        spec = G.gen_actor(rng, max_iters=L, refine=True, shipped_prob=0.05, small_iters_prob=0.05)
        spec["params"]["itersLimit"] = min(spec["params"]["itersLimit"], L)
        twin = _twin_for(spec)
        calls = [c for c in twin["calls"]]
        T = len([c for c in calls if c[0] == "global"])
        if twin["aborted"] or (twin["ops"] and twin["ops"][0].get("raised")) or T < 2:
            yield G.base_plan(self.prop, run_seed, {"S0": spec}, [{"a": "S0", "op": "create"}, {"a": "S0", "op": "solve"}],
                              faults=[{"a": "S0", "at_eval": 2, "exc": "ValueError", "when": "before"}])
            return
        total = len(calls)
        ks = list(range(2, total + 1))
        if len(ks) > 80:
            ks = sorted(rng.sample(ks, 80))
        clock = G.gen_clock(rng)
        for k in ks:
            for exc in rng.sample(FAULT_KINDS, 3):
                when = rng.choice(["before", "after"])
                ops = [{"a": "S0", "op": "create"}, {"a": "S0", "op": "solve"}]
                if rng.random() < 0.2:
                    ops.append({"a": "S0", "op": "results"})
                yield G.base_plan(self.prop, run_seed, {"S0": spec}, ops, clock=clock, refine_case=True,
                                  faults=[{"a": "S0", "at_eval": k, "exc": exc, "when": when, "persistent": rng.random() < 0.3,
                                           "noargs": rng.random() < 0.3}])

    def check_refine(self, plan, rep, twin, bad):
        spec = plan["actors"]["S0"]
        tg = [(y, v) for (ph, y, v, f) in twin["calls"] if ph == "global"]
        T = len(tg)
        total = len(twin["calls"])
        ft = plan["faults"][0]
        k = int(ft["at_eval"])
        if k > total or k < 2:
            rep.inconclusive["fault_beyond_run"] += 1
            return rep
        w = World(plan, []).run()
        rep.absorb_world(w)
        rep.digest = w.digest()
        rep.sig = core.short_hash((w.sig, k, ft["exc"], ft.get("when")))
        a = w.actors["S0"]
        phase = "global" if k <= T else "local"
        tag = "fault %s%s(%s) at evaluation %d (%s phase, refineSolution=True)" % (ft["exc"], " without arguments" if ft.get("noargs") else "", ft.get("when", "before"), k, phase)
        if not a.fired_faults:
            rep.inconclusive["fault_not_fired"] += 1
            return rep
        if not a.solve_info:
            rep.inconclusive["no_solve"] += 1
            return rep
        if a.solve_info[0]["raised"]:
            bad("escaped", "%s: Solve did not return, it raised %s" % (tag, a.solve_info[0]["raised"]), ft["exc"] + "/" + phase)
            return rep
        real = [c for c in a.calls if c.phase != "probe"]
        n_expect = k - 1 if k <= T else T
        doneg = [(c.y, c.value) for c in real if c.completed and c.phase in ("global", "global_extra")]
        d = first_diff(doneg, tg[:n_expect])
        if d:
            bad("prefix", "%s: completed global trials differ from the fault-free run at trial %d: %r vs %r" % (tag, d[0] + 1, d[1], d[2]))
            return rep
        sols = [s for s in a.solutions if s["kind"] == "solve"]
        if not sols or "error" in sols[0]:
            bad("result", "%s: Solve returned an unreadable result" % tag)
            return rep
        s0 = sols[0]
        if s0["nglobal"] != n_expect:
            bad("count", "%s: result reports %d global trials, %d were completed" % (tag, s0["nglobal"], n_expect))
            return rep
        done_all = [c for c in real if c.completed]
        hit = [c for c in done_all if c.y == s0["point"]]
        if not hit:
            bad("best_point", "%s: result point %r was never successfully evaluated" % (tag, s0["point"]))
            return rep
        if not any(c.value == s0["value"] for c in hit):
            bad("best_value", "%s: result value %r, the objective at the result point %r returned %r" % (tag, s0["value"], s0["point"], hit[0].value))
            return rep
        mn = min(v for (y, v) in tg[:n_expect])
        if s0["value"] > mn:
            bad("best_value", "%s: result value %r is worse than the best of the %d completed global trials %r" % (tag, s0["value"], n_expect, mn))
            return rep
        xk = twin["trials"][k - 1][0] if (k <= T and len(twin["trials"]) >= k) else None
        ww = _Flagger()
        if not C06Monitor().check_record(ww, a, "after_fault", expect_trials=n_expect, forbid_x=xk):
            cl, msg = ww.flags[0]
            bad("record_" + cl, "%s: %s" % (tag, msg))
            return rep
        stops = [e for e in a.bracket_events if e[1] == "OnMethodStop"]
        if len(stops) != len(a.solve_info):
            bad("method_stop", "%s: OnMethodStop delivered %d times for %d Solve call(s)" % (tag, len(stops), len(a.solve_info)))
            return rep
        rep.probes["refine_case_" + phase + "_phase_fault"] += 1
        rep.probes["refine_case_persistent"] += int(bool(ft.get("persistent")))
        if T >= 3:
            rep.nontrivial = core.short_hash((spec["objective"], spec.get("lower"), spec["params"], k, ft["exc"], ft.get("when"), "refine"))
        return rep

    def check(self, plan):
        rep = Report()
        spec = plan["actors"]["S0"]
        P = self.prop

        def bad(clause, msg, locus="fault"):
            rep.violations.append(core.Violation(P, clause, msg, locus))
        if plan.get("refined_then_fault"):
            return self.check_refined_then_fault(plan, rep, bad)
        # the reference run uses the very same driver ops (so this check does not rest on C11)
        twin = _twin_for(spec, [o for o in plan["ops"] if o["a"] == "S0"])
        rep.n_exec = 2
        if spec["params"].get("refineSolution") and not (twin["ops"] and twin["ops"][0].get("raised")) and not twin["aborted"]:
            return self.check_refine(plan, rep, twin, bad)
        if twin["ops"] and twin["ops"][0].get("raised"):
            bad("construct", "Solver(...) raised " + str(twin["ops"][0]["raised"]), "Solver.__init__")
            return rep
        if twin["aborted"]:
            rep.inconclusive["twin_" + str(twin["aborted"])] += 1
            return rep
        tg = [(y, v) for (ph, y, v, f) in twin["calls"] if ph == "global"]
        ft = plan["faults"][0]
        k = int(ft["at_eval"])
        if k > len(tg) or k < 2:
            rep.inconclusive["fault_beyond_run"] += 1
            return rep
        c06 = C06Monitor()
        w = World(plan, []).run()
        rep.absorb_world(w)
        rep.digest = w.digest()
        rep.sig = core.short_hash((w.sig, k, ft["exc"], ft.get("when")))
        a = w.actors["S0"]
        tag = "fault %s%s(%s) at evaluation %d" % (ft["exc"], " without arguments" if ft.get("noargs") else "", ft.get("when", "before"), k)
        if not a.fired_faults:
            rep.inconclusive["fault_not_fired"] += 1
            return rep
        solve_marks = [s for s in a.solve_info]
        if not solve_marks:
            rep.inconclusive["no_solve"] += 1
            return rep
        first_solve = solve_marks[0]
        if first_solve["raised"]:
            bad("escaped", "%s: Solve did not return, it raised %s" % (tag, first_solve["raised"]), ft["exc"])
            return rep
        real = [c for c in a.calls if c.phase != "probe"]
        done = [(c.y, c.value) for c in real if c.completed]
        # the log: twin's first k-1 trials, then the failed call at the twin's k-th point
        d = first_diff(done[:k - 1], tg[:k - 1])
        if d:
            bad("prefix", "%s: completed trials differ from the fault-free run at trial %d: %r vs %r" % (tag, d[0] + 1, d[1], d[2]))
            return rep
        failed = [c for c in real if c.fault]
        if not failed or failed[0].y != tg[k - 1][0]:
            bad("prefix", "%s: the failed evaluation was at %r, the fault-free run's trial %d is at %r" % (tag, failed[0].y if failed else None, k, tg[k - 1][0]))
            return rep
        after_fault = [c for c in real if c.seq > failed[0].seq]
        persistent = bool(ft.get("persistent"))
        if after_fault and not persistent and False:
            pass
        sols = [s for s in a.solutions if s["kind"] == "solve"]
        if not sols or "error" in sols[0]:
            bad("result", "%s: Solve returned an unreadable result" % tag)
            return rep
        s0 = sols[0]
        if s0["nglobal"] != k - 1:
            bad("count", "%s: result reports %d global trials, %d were completed" % (tag, s0["nglobal"], k - 1))
            return rep
        vals = [v for (y, v) in tg[:k - 1]]
        mn = min(vals)
        if s0["value"] != mn:
            bad("best_value", "%s: result value %r, best of the %d completed trials is %r" % (tag, s0["value"], k - 1, mn))
            return rep
        if s0["point"] not in [y for (y, v) in tg[:k - 1] if v == mn]:
            bad("best_point", "%s: result point %r is not a completed trial attaining %r" % (tag, s0["point"], mn))
            return rep
        # record rules on the post-fault search data: k-1 trials + 2 ends, failed coordinate absent
        xk = twin["trials"][k - 1][0] if len(twin["trials"]) >= k else None
        ww = _Flagger()
        retried = len(a.solve_info) >= 2 and not persistent
        # (when the caller retried, the live search data has moved on: the record is checked after the retry, below)
        ok = retried or c06.check_record(ww, a, "after_fault", expect_trials=k - 1, forbid_x=xk)
        if not ok:
            cl, msg = ww.flags[0]
            bad("record_" + cl, "%s: %s" % (tag, msg))
            return rep
        stops = [e for e in a.bracket_events if e[1] == "OnMethodStop"]
        n_solves = len(a.solve_info)
        if len(stops) != n_solves:
            bad("method_stop", "%s: OnMethodStop delivered %d times for %d Solve call(s)" % (tag, len(stops), n_solves))
            return rep
        # nothing but completed trials is ever announced to a listener (the failed point is not a trial)
        done_pts = {c.y for c in real if c.completed}
        ghost = [pt for (opno, pt) in a.notified if pt not in done_pts]
        if ghost:
            bad("failed_point_announced", "%s: OnEndIteration announced %r, which was never successfully evaluated" % (tag, ghost[0]))
            return rep
        # the failure was transient and the caller called Solve again: the search goes on from the recorded state
        if len(a.solve_info) >= 2 and not persistent:
            n_done = len([c for c in real if c.completed])
            s1 = sols[-1]
            if "error" in s1 or a.solve_info[-1]["raised"]:
                bad("retry", "%s: the second Solve %s" % (tag, "raised " + str(a.solve_info[-1]["raised"]) if a.solve_info[-1]["raised"] else "returned an unreadable result"))
                return rep
            if s1["nglobal"] != n_done:
                bad("retry_count", "%s: after the second Solve %d global trials are reported, %d were completed" % (tag, s1["nglobal"], n_done))
                return rep
            allv = [c.value for c in real if c.completed]
            if s1["value"] != min(allv) or s1["point"] not in [c.y for c in real if c.completed and c.value == min(allv)]:
                bad("retry_best", "%s: after the second Solve the result is %r at %r, best completed trial has value %r" % (tag, s1["value"], s1["point"], min(allv)))
                return rep
            ww2 = _Flagger()
            if not C06Monitor().check_record(ww2, a, "after_retry", expect_trials=n_done):
                cl, msg = ww2.flags[0]
                bad("retry_record_" + cl, "%s: after the second Solve: %s" % (tag, msg))
                return rep
            rep.probes["second_solve_after_transient_fault"] += 1
        rep.probes["k_eq_2"] += int(k == 2)
        rep.probes["k_eq_T"] += int(k == len(tg))
        rep.probes["fault_after_new_opt"] += int(k >= 3 and tg[k - 2][1] == min(v for (y, v) in tg[:k - 1]) and tg[k - 2][1] < min(v for (y, v) in tg[:k - 2]))
        rep.probes["tie_pending"] += int(vals.count(mn) > 1)
        rep.probes["with_prefix"] += int(any(o["op"] == "iterate" for o in plan["ops"]))
        rep.probes["exception_without_arguments"] += int(bool(ft.get("noargs")))
        if len(tg) >= 4:
            rep.nontrivial = core.short_hash((spec["objective"], spec.get("lower"), spec["params"], k, ft["exc"], ft.get("when")))
        return rep


class _Flagger:
    def __init__(self):
        self.flags = []
        self.inconclusive = {}

    def flag(self, prop, clause, msg, locus=""):
        self.flags.append((clause, msg))
