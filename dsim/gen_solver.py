"""Plan generators for the solver suite.  Everything is drawn from the run's own PRNG
before the run starts; the executor draws nothing."""
import math

from . import objectives

EPS_MIN = {1: 1e-5, 2: 1e-3, 3: 5e-3, 4: 1e-2, 5: 2e-2}
R_GRID = [1.05, 1.1, 1.5, 2.0, 2.5, 3.5, 5.0, 10.0]


def loguniform(rng, lo, hi):
    return math.exp(rng.uniform(math.log(lo), math.log(hi)))


def gen_r(rng):
    if rng.random() < 0.7:
        return rng.choice(R_GRID)
    return float("%.4g" % rng.uniform(1.01, 10.0))


def gen_eps(rng, N, big_prob=0.25):
    if rng.random() < big_prob:
        return rng.choice([1.0, 1.5, 7.0])
    return float("%.3g" % loguniform(rng, EPS_MIN[N], 0.999))


def gen_iters(rng, hi, small_prob=0.15):
    if rng.random() < small_prob:
        return rng.choice([1, 2, 3, 4, 5])
    return int(loguniform(rng, 6, max(7, hi)))


def gen_dim(rng, dims=(1, 2, 3, 4, 5)):
    # weights favour low dimension (cheaper, more iterations per run) but keep all of 1..5
    w = {1: 4, 2: 4, 3: 2, 4: 1, 5: 1}
    pool = [d for d in dims for _ in range(w[d])]
    return rng.choice(pool)


def gen_actor(rng, max_iters=120, dims=(1, 2, 3, 4, 5), families=None, shipped_prob=0.12,
              refine=None, density=10, listeners=None, eps_big_prob=0.25, small_iters_prob=0.15):
    """One solver actor spec."""
    if rng.random() < shipped_prob:
        obj = objectives.gen_shipped(rng, dims=dims)
        N = obj["N"]
        lower = upper = None
    else:
        N = gen_dim(rng, dims)
        btype = "float_array"
        if rng.random() < 0.12:
            # bounds presented the way a user (and the shipped GKLS) may write them: python ints / int arrays / lists
            lower, upper = objectives.gen_int_box(rng, N)
            btype = rng.choice(["int_list", "int_array", "float_list"])
        else:
            lower, upper = objectives.gen_box(rng, N)
            if rng.random() < 0.1:
                btype = "float_list"
        obj = objectives.gen_spec(rng, N, lower, upper, families)
    params = {"r": gen_r(rng), "eps": gen_eps(rng, N, eps_big_prob),
              "itersLimit": gen_iters(rng, max_iters, small_iters_prob),
              "evolventDensity": density,
              "refineSolution": (rng.random() < 0.25) if refine is None else bool(refine)}
    spec = {"kind": "solver", "objective": obj, "params": params, "listeners": listeners or []}
    if lower is not None:
        spec["lower"] = lower
        spec["upper"] = upper
        if btype != "float_array":
            spec["bounds_type"] = btype
    if rng.random() < 0.05:
        params["epsR"] = rng.choice([0.0, 0.01, 0.5, 1.0, 3.0])
    # ways user code writes the same configuration (none of them changes what is configured)
    u = rng.random()
    if u < 0.03:
        spec["params_set"] = "positional"      # SolverParameters(eps, r, itersLimit, evolventDensity) without keywords
    elif u < 0.06:
        spec["params_set"] = "attr"            # SolverParameters() first, public fields assigned afterwards
    elif u < 0.10:
        spec["density_type"] = rng.choice(["np.int64", "np.int32"])     # density taken from a numpy array / rng.integers
    if rng.random() < 0.04:
        spec["holder"] = "new"                 # objective returns its value in a new FunctionValue
    u = rng.random()
    if u < 0.04:
        spec["value_type"] = rng.choice(["np.float64", "0d"])     # objective value is a numpy scalar / a 0-d ndarray (np.squeeze, tensor.numpy())
    elif u < 0.08:
        spec["r_type"] = rng.choice(["np.float64", "0d"])         # r read from a numpy array / np.loadtxt
    if lower is not None and rng.random() < 0.04:
        spec["start_point"] = [l + (h - l) * float("%.3g" % rng.random()) for l, h in zip(lower, upper)]
    if rng.random() < 0.04:
        spec["n_discrete"] = rng.randint(1, 2)      # the problem also declares discrete variables (the method ignores them)
    return spec


def gen_batches(rng, total, style=None):
    """Composition of `total` iterations into DoGlobalIteration batch sizes."""
    out = []
    left = total
    style = style or rng.choice(["ones", "small", "mixed", "big"])
    while left > 0:
        if style == "ones":
            k = 1
        elif style == "small":
            k = rng.randint(1, 4)
        elif style == "big":
            k = rng.randint(1, max(1, left))
        else:
            k = rng.choice([1, 1, 2, 3, 5, 8, rng.randint(1, 40)])
        k = min(k, left)
        out.append(k)
        left -= k
    return out


def gen_single_ops(rng, aid, n_iter, with_solve=True, results_prob=0.15, after_solve_iters=0, refine_ops=False):
    """Driver op list for one actor: random mixture of iterate(k) / solve / results."""
    ops = [{"a": aid, "op": "create"}]
    pre = gen_batches(rng, n_iter) if n_iter > 0 else []
    for k in pre:
        ops.append({"a": aid, "op": "iterate", "k": k})
        if rng.random() < results_prob:
            ops.append({"a": aid, "op": "results"})
    if with_solve:
        ops.append({"a": aid, "op": "solve"})
        if rng.random() < results_prob:
            ops.append({"a": aid, "op": "results"})
    for k in (gen_batches(rng, after_solve_iters) if after_solve_iters > 0 else []):
        ops.append({"a": aid, "op": "iterate", "k": k})
    if refine_ops and rng.random() < 0.5:
        ops.append({"a": aid, "op": "refine", "n": rng.choice([-1, 0, 1, 5, 50])})
        ops.append({"a": aid, "op": "results"})
    if rng.random() < 0.04:
        # a batching driver whose computed batch size happens to be 0 (finalise_plan drops it for solvers that carry a
        # shipped console / painting listener: those cannot digest an empty batch at this commit, see DESIGN 12)
        ops.insert(rng.randint(1, len(ops)), {"a": aid, "op": "iterate", "k": 0})
    return ops


def gen_evq(rng, aid, spec):
    """The caller queries the solver's own evolvent (solver.evolvent / method.evolvent handed to a listener):
    a pure query API (C17), legal at any moment."""
    lower, upper = spec.get("lower"), spec.get("upper")
    u = rng.random()
    if rng.random() < 0.06 and spec.get("lower") is not None:
        return {"a": aid, "op": "evq", "q": "setbounds_same"}
    if rng.random() < 0.2:
        # a read of the search information instead: covering-interval lookup, or a walk abandoned after a few items
        if rng.random() < 0.6:
            return {"a": aid, "op": "sdq", "q": "find", "x": rng.choice([rng.random(), rng.random(), 0.0, 0.999])}
        return {"a": aid, "op": "sdq", "q": "partial_walk", "stop": rng.randint(0, 4)}
    if lower is None or u < 0.45:
        x = rng.choice([0.5, 0.5, 0.0, 1.0, rng.random(), rng.randrange(1024) / 1024.0])
        return {"a": aid, "op": "evq", "q": "image", "x": x}
    y = [l + (h - l) * rng.random() for l, h in zip(lower, upper)]
    how = rng.choice(["array", "list", "f32"])
    if rng.random() < 0.25:
        return {"a": aid, "op": "evq", "q": rng.choice(["inverse", "preimages"]), "as": "best"}
    if rng.random() < 0.4 and all(math.ceil(l) <= math.floor(h) for l, h in zip(lower, upper)):
        y = [rng.randint(math.ceil(l), math.floor(h)) for l, h in zip(lower, upper)]
        how = rng.choice(["int_list", "int_array"])
    return {"a": aid, "op": "evq", "q": rng.choice(["inverse", "preimages"]), "y": y, "as": how}


def sprinkle_evq(rng, ops, aid, spec, prob=0.15, each=0.25, refill=False):
    """With probability `prob` the driver of `aid` also queries the solver's evolvent now and then.  refill=True (only for
    oracles that do not depend on the order of ties): the driver also calls searchData.RefillQueue() between iterations."""
    if rng.random() >= prob:
        return ops
    out = []
    for o in ops:
        out.append(o)
        if o.get("a") == aid and o["op"] in ("create", "iterate", "solve") and rng.random() < each:
            if refill and o["op"] == "iterate" and rng.random() < 0.3:
                out.append({"a": aid, "op": "sdq", "q": "refill"})
            else:
                out.append(gen_evq(rng, aid, spec))
    return out


def share_problem(rng, actors, a0, a1, max_iters=30):
    """Make actor a1 a second solver on the very Problem object of a0 (a parameter study: other r / eps / budget)."""
    s0 = actors[a0]
    s1 = {"kind": "solver", "objective": s0["objective"], "listeners": [],
          "params": {"r": gen_r(rng), "eps": gen_eps(rng, s0["objective"]["N"]), "itersLimit": gen_iters(rng, max_iters),
                     "evolventDensity": s0["params"].get("evolventDensity", 10), "refineSolution": False}}
    for k in ("lower", "upper", "bounds_type", "holder"):
        if k in s0:
            s1[k] = s0[k]
    s0["problem_obj"] = s1["problem_obj"] = "shared:Q"
    actors[a1] = s1
    return s1


def add_listener_fault(rng, plan, aid="S0", hi=20):
    """A listener of the user fails once (DoGlobalIteration lets the exception travel to the caller, Solve contains it) and
    the caller keeps using the solver.  The failing listener is a recording listener appended to the actor's listeners."""
    spec = plan["actors"][aid]
    spec.setdefault("listeners", [])
    lid = len(spec["listeners"])
    spec["listeners"].append({"kind": "recording", "overrides": ["BeforeMethodStart", "OnEndIteration", "OnMethodStop"]})
    cb = rng.choice(["OnEndIteration", "OnEndIteration", "OnEndIteration", "BeforeMethodStart", "OnMethodStop"])
    plan.setdefault("lfaults", []).append({"a": aid, "lid": lid, "cb": cb, "index": 1 if cb != "OnEndIteration" else rng.choice([1, 1, 2, rng.randint(1, hi)]),
                                           "exc": rng.choice(["ValueError", "KeyboardInterrupt", "SimFault"])})
    plan["continue_after_fault"] = True
    for _ in range(rng.randint(1, 3)):
        plan["ops"].append({"a": aid, "op": "iterate", "k": rng.randint(1, 8)})
    if rng.random() < 0.6:
        plan["ops"].append({"a": aid, "op": "solve"})
        if rng.random() < 0.5:
            plan["ops"].append({"a": aid, "op": "iterate", "k": rng.randint(1, 5)})
    return plan


def sprinkle_misc(rng, ops, aid, prob=0.06):
    """Now and then: a SaveProgress/LoadProgress round trip, or a listener attached in mid-run."""
    if rng.random() >= prob:
        return ops
    idx = [i for i, o in enumerate(ops) if o.get("a") == aid and o["op"] in ("iterate", "solve")]
    if not idx:
        return ops
    i = rng.choice(idx)
    return ops[:i + 1] + [{"a": aid, "op": rng.choice(["saveload", "addl"])}] + ops[i + 1:]


def sprinkle_clone(rng, ops, aid, prob=0.05, spec=None):
    """Checkpoint / rollback: at some moment the caller continues with a deep copy of the solver."""
    if rng.random() >= prob:
        return ops
    idx = [i for i, o in enumerate(ops) if o.get("a") == aid and o["op"] in ("iterate", "solve", "create")]
    if not idx:
        return ops
    i = rng.choice(idx)
    op = {"a": aid, "op": "clone"}
    if spec is not None and not spec.get("listeners") and rng.random() < 0.5:
        # a fork: the caller goes on with the copy AND keeps stepping the original (which must not reach the copy)
        op["keep"] = rng.randint(1, 6)
    return ops[:i + 1] + [op] + ops[i + 1:]


def gen_clock(rng):
    c = {"start": 1.7e9, "eval_cost": [0.001, float("%.3g" % rng.uniform(0.01, 3.0))]}
    if rng.random() < 0.3:
        c["jumps"] = [{"at_call": rng.randint(1, 60), "by": float("%.3g" % loguniform(rng, 1, 1e5))}]
    return c


def finalise_plan(plan):
    """Idempotent, draws nothing: zero-size batches are only kept for solvers whose listeners are all user-written ones
    (the shipped console and painting listeners index the first point of the batch they are told about)."""
    if plan.get("suite") != "solver":
        return plan
    shipped = {aid for aid, a in plan.get("actors", {}).items()
               if any(l.get("kind") != "recording" for l in a.get("listeners", []) or [])}
    def keep(o):
        return not (o.get("op") == "iterate" and o.get("k") == 0 and o.get("a") in shipped)
    if shipped:
        plan["ops"] = [o for o in plan["ops"] if keep(o)]
        for n in plan.get("nested", []) or []:
            n["ops"] = [o for o in n["ops"] if keep(o)]
    return plan


def base_plan(prop, run_seed, actors, ops, **extra):
    plan = {"property": prop, "suite": "solver", "format": 1, "run_seed": run_seed,
            "actors": actors, "ops": ops, "nested": [], "faults": []}
    plan.update(extra)
    return plan
