"""dsim - deterministic simulation with fault injection for iOpt (see /verif/DESIGN.md)."""
