"""fork_call(fn, *args): run fn in a forked child (pristine post-import state), return its
picklable result.  Used for twin / solo reference executions."""
import os
import pickle
import select
import signal
import sys
import time
import traceback

from .core import HarnessError


def fork_call(fn, *args, timeout=300):
    if os.environ.get("VERIF_NOFORK"):
        return fn(*args)
    r, w = os.pipe()
    sys.stdout.flush()
    pid = os.fork()
    if pid == 0:
        code = 0
        try:
            os.close(r)
            try:
                data = pickle.dumps(("ok", fn(*args)))
            except BaseException as e:
                data = pickle.dumps(("err", "".join(traceback.format_exception(type(e), e, e.__traceback__))))
            with os.fdopen(w, "wb") as f:
                f.write(data)
        except BaseException:
            code = 3
        finally:
            os._exit(code)
    os.close(w)
    chunks = []
    deadline = time.time() + timeout
    timed_out = False
    with os.fdopen(r, "rb") as f:
        while True:
            left = deadline - time.time()
            if left <= 0:
                timed_out = True
                break
            ready, _, _ = select.select([f], [], [], min(left, 5.0))
            if ready:
                b = os.read(f.fileno(), 1 << 20)
                if not b:
                    break
                chunks.append(b)
    if timed_out:
        try:
            os.kill(pid, signal.SIGKILL)
        except OSError:
            pass
    os.waitpid(pid, 0)
    if timed_out:
        raise HarnessError("isolated execution timed out")
    try:
        kind, payload = pickle.loads(b"".join(chunks))
    except Exception as e:
        raise HarnessError("isolated child died without a result: %r" % (e,))
    if kind != "ok":
        raise HarnessError("isolated execution failed:\n" + payload)
    return payload


class PristineServer:
    """A child forked NOW - before the caller has executed any code under test - that later runs reference executions on
    request, each in its own grandchild, so that a reference really starts from the pristine post-import state even when it is
    asked for after the simulated run has executed (and possibly polluted process-global state) in the caller."""

    def __init__(self):
        self.nofork = bool(os.environ.get("VERIF_NOFORK"))
        if self.nofork:
            return
        self.req_r, self.req_w = os.pipe()
        self.res_r, self.res_w = os.pipe()
        sys.stdout.flush()
        self.pid = os.fork()
        if self.pid == 0:
            code = 0
            try:
                os.close(self.req_w)
                os.close(self.res_r)
                signal.setitimer(signal.ITIMER_REAL, 0)
                with os.fdopen(self.req_r, "rb") as fin, os.fdopen(self.res_w, "wb") as fout:
                    while True:
                        try:
                            fn, args = pickle.load(fin)
                        except EOFError:
                            break
                        try:
                            out = ("ok", fork_call(fn, *args))
                        except BaseException as e:
                            out = ("err", "".join(traceback.format_exception(type(e), e, e.__traceback__)))
                        pickle.dump(out, fout)
                        fout.flush()
            except BaseException:
                code = 3
            finally:
                os._exit(code)
        os.close(self.req_r)
        os.close(self.res_w)
        self.fout = os.fdopen(self.req_w, "wb")
        self.fin = os.fdopen(self.res_r, "rb")

    def call(self, fn, *args):
        if self.nofork:
            return fn(*args)
        pickle.dump((fn, args), self.fout)
        self.fout.flush()
        try:
            kind, payload = pickle.load(self.fin)
        except EOFError:
            raise HarnessError("pristine reference server died")
        if kind != "ok":
            raise HarnessError("reference execution failed:\n" + str(payload))
        return payload

    def close(self):
        if self.nofork:
            return
        try:
            self.fout.close()
            self.fin.close()
        except Exception:
            pass
        try:
            os.waitpid(self.pid, 0)
        except OSError:
            pass
