"""fork_call(fn, *args): run fn in a forked child (pristine post-import state), return its
picklable result.  Used for twin / solo reference executions."""
import os
import pickle
import select
import signal
import sys
import time
import traceback

from .core import HarnessError


def fork_call(fn, *args, timeout=300):
    if os.environ.get("VERIF_NOFORK"):
        return fn(*args)
    r, w = os.pipe()
    sys.stdout.flush()
    pid = os.fork()
    if pid == 0:
        code = 0
        try:
            os.close(r)
            try:
                data = pickle.dumps(("ok", fn(*args)))
            except BaseException as e:
                data = pickle.dumps(("err", "".join(traceback.format_exception(type(e), e, e.__traceback__))))
            with os.fdopen(w, "wb") as f:
                f.write(data)
        except BaseException:
            code = 3
        finally:
            os._exit(code)
    os.close(w)
    chunks = []
    deadline = time.time() + timeout
    timed_out = False
    with os.fdopen(r, "rb") as f:
        while True:
            left = deadline - time.time()
            if left <= 0:
                timed_out = True
                break
            ready, _, _ = select.select([f], [], [], min(left, 5.0))
            if ready:
                b = os.read(f.fileno(), 1 << 20)
                if not b:
                    break
                chunks.append(b)
    if timed_out:
        try:
            os.kill(pid, signal.SIGKILL)
        except OSError:
            pass
    os.waitpid(pid, 0)
    if timed_out:
        raise HarnessError("isolated execution timed out")
    try:
        kind, payload = pickle.loads(b"".join(chunks))
    except Exception as e:
        raise HarnessError("isolated child died without a result: %r" % (e,))
    if kind != "ok":
        raise HarnessError("isolated execution failed:\n" + payload)
    return payload
