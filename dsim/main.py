"""Entry point (a script, not `python -m`, so that no module is loaded twice)."""
import os
import sys

sys.path.insert(0, os.path.dirname(os.path.dirname(os.path.abspath(__file__))))
os.environ.setdefault("MPLBACKEND", "Agg")


def main(argv):
    if len(argv) < 2:
        print("usage: check <id> quick|thorough | check <id> --replay <file> | check selftest [quick]")
        return 2
    if argv[0] == "selftest":
        from dsim import selftest
        return selftest.main(argv[1:])
    prop = argv[0]
    from dsim import runner
    if argv[1] == "--replay":
        return runner.main_check(prop, "quick", replay=argv[2])
    tier = argv[1]
    if tier not in ("quick", "thorough"):
        print("unknown tier", tier)
        return 2
    os.environ["VERIF_TIER"] = tier
    return runner.main_check(prop, tier)


if __name__ == "__main__":
    import warnings
    warnings.filterwarnings("ignore")
    sys.exit(main(sys.argv[1:]))
