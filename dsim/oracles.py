"""Oracles (monitors) for the solver suite.  One monitor per property; a check enables only
its own property's monitor, so a change that breaks property X cannot make check Y alarm
unless Y is broken too."""
import math

from . import core
from .world import Monitor, read_solution, _reraise_if_harness, _same_point

INF = float("inf")


def rel_eq(a, b, rtol=1e-12):
    if a == b:
        return True
    if math.isinf(a) or math.isinf(b) or math.isnan(a) or math.isnan(b):
        return False
    return abs(a - b) <= rtol * max(abs(a), abs(b))


def fresh_evolvent(actor):
    from iOpt.evolvent.evolvent import Evolvent
    m = actor.solver.evolvent.evolventDensity
    return Evolvent(actor.lower, actor.upper, actor.N, m)


# ----------------------------------------------------------------------------------- C02

class C02Monitor(Monitor):
    prop = "C02"

    def __init__(self):
        self.reported = {}

    def on_op_end(self, w, a, op, outcome):
        if outcome.get("self_read"):
            return
        if op["op"] == "create":
            if a.construct_error:
                w.flag(self.prop, "construct", "Solver(...) raised %s" % a.construct_error, "Solver.__init__")
            return
        n0 = self.reported.get(a.aid, 0)
        for (tno, clause, msg) in a.model_issues[n0:]:
            w.flag(self.prop, clause, "%s: %s" % (a.aid, msg), "trial")
        self.reported[a.aid] = len(a.model_issues)
        if a.trials and not getattr(a, "_c02_first_checked", False):
            a._c02_first_checked = True
            try:
                y0 = core.as_floats(fresh_evolvent(a).GetImage(0.5))
            except BaseException as e:
                _reraise_if_harness(e)
                y0 = None
            if y0 is not None and a.trials[0][2] != y0:
                w.flag(self.prop, "first_image", "%s: first trial at %r, image of 0.5 is %r" % (a.aid, a.trials[0][2], y0), "first")
        if outcome.get("raised") and op["op"] == "iterate" and a.aborted == "op_raised":
            w.flag(self.prop, "iterate_raised", "%s: DoGlobalIteration raised %s with the rule's point strictly inside its interval"
                   % (a.aid, outcome["raised"]), "DoGlobalIteration")
        if a.desync:
            w.inconclusive["desync"] += 1


# ----------------------------------------------------------------------------------- C03

class C03Monitor(Monitor):
    prop = "C03"

    def __init__(self):
        self.probe = {"solve_after_or_around_fault": 0}

    def on_op_end(self, w, a, op, outcome):
        kind = op["op"]
        if outcome.get("self_read"):
            return          # a read from inside the host's own call-out: the accounting clauses apply at op boundaries
        if kind == "create":
            if a.construct_error:
                w.flag(self.prop, "construct", "Solver(...) raised %s" % a.construct_error, "Solver.__init__")
            return
        if a.aborted in ("float_exhausted",):
            w.inconclusive["c03_skipped_float_exhausted"] += 1
            return
        n = len(a.global_calls())
        # reported number of global trials == objective evaluations made by the global search
        sol = None
        try:
            sol = a.solver.GetResults()
        except BaseException as e:
            _reraise_if_harness(e)
        rs = read_solution(sol) if sol is not None else None
        failed = [c for c in a.calls if c.fault is not None and c.phase != "probe"]
        if rs is not None and kind in ("iterate", "solve", "results"):
            # (an evaluation that raised made no trial: the count is that of the completed evaluations)
            if rs[2] != n:
                w.flag(self.prop, "count", "%s: after %s reported numberOfGlobalTrials=%d, objective was evaluated %d times by the global search%s"
                       % (a.aid, kind, rs[2], n, " (+%d failed evaluation(s))" % len(failed) if failed else ""), kind)
        if kind != "solve":
            return
        if any(lf[3] == a.op_no for lf in a.fired_lfaults):
            return            # this Solve was cut short by a failing listener of the user: no stop-index clause
        retry_after_first_eval_failure = False
        if failed and all(c.idx == 1 for c in failed) and len(failed) == 1 and failed[0].op_no != a.op_no:
            failed = []       # only the very first evaluation failed, once, in an EARLIER call: nothing had been recorded, this
            #                   Solve starts the run again and must be the fault-free run (the failed evaluation may or may not
            #                   have been charged to the budget: both are accepted)
            retry_after_first_eval_failure = True
            if int(a.params["itersLimit"]) <= 1:
                return        # (a budget of one may legitimately be considered spent by the failed evaluation)
        if failed and not outcome.get("raised") and not a.solve_info[-1]["over_budget"]:
            # fault configuration: the stop index is not predicted (the failed iteration lost its interval), but the
            # budget still binds - a Solve never takes the number of trials beyond max(itersLimit, trials before it)
            self.probe["solve_after_or_around_fault"] += 1
            lim = int(a.params["itersLimit"])
            pre = a.solve_info[-1]["pre"]
            if n > max(lim, pre):
                w.flag(self.prop, "budget", "%s: Solve after an objective failure ended with %d global trials (%d before it), itersLimit=%d"
                       % (a.aid, n, pre, lim), "Solve/after_fault")
            return
        info = a.solve_info[-1]
        eps = a.params["eps"]
        lim = int(a.params["itersLimit"])
        pre = info["pre"]
        if outcome.get("raised"):
            w.flag(self.prop, "solve_raised", "%s: Solve raised %s" % (a.aid, outcome["raised"]), "Solve")
            return
        if info["over_budget"]:
            w.flag(self.prop, "budget", "%s: Solve kept evaluating beyond its budget (itersLimit=%d, %d trials before Solve)"
                   % (a.aid, lim, pre), "Solve")
            return
        if failed:
            return
        if a.desync or len(a.trials) != n:
            w.inconclusive["c03_untracked"] += 1
            return
        tstar = a.model.stop_index(eps, lim)
        if tstar is None:
            if a.model.exhausted():
                a.exhausted = True
                w.inconclusive["float_exhausted"] += 1
                return
            w.flag(self.prop, "stopped_early", "%s: Solve returned after %d trials but the stop criterion does not hold "
                   "(eps=%r, itersLimit=%d, min subdivided length=%r)" % (a.aid, n, eps, lim, a.model.min_chosen()), "Solve")
            return
        expect = max(pre, tstar)
        if retry_after_first_eval_failure and tstar >= lim and n == max(pre, lim - 1) and lim >= 2:
            self.probe["retry_budget_charged_for_failed_evaluation"] = self.probe.get("retry_budget_charged_for_failed_evaluation", 0) + 1
            return
        if n != expect:
            w.flag(self.prop, "stopped_late" if n > expect else "stopped_early",
                   "%s: Solve ended with %d global trials, criterion first holds at %d (pre=%d eps=%r itersLimit=%d)"
                   % (a.aid, n, tstar, pre, eps, lim), "Solve")
            return
        if pre == 0 and n > lim:
            w.flag(self.prop, "budget", "%s: %d trials > itersLimit %d" % (a.aid, n, lim), "Solve")
        res = outcome.get("result")
        rr = read_solution(res) if res is not None else None
        if rr is None:
            w.flag(self.prop, "result", "%s: Solve returned an unreadable result" % a.aid, "Solve")
            return
        if rr[2] != n:
            w.flag(self.prop, "count", "%s: Solve reports %d global trials, %d evaluations made" % (a.aid, rr[2], n), "Solve")
        acc = a.model.min_chosen()
        if not rel_eq(rr[4], acc):
            w.flag(self.prop, "accuracy", "%s: reported accuracy %r, smallest subdivided Hoelder length %r" % (a.aid, rr[4], acc), "Solve")


# ----------------------------------------------------------------------------------- C04

class C04Monitor(Monitor):
    prop = "C04"

    def __init__(self):
        self.probe = {"moments": 0, "in_callback": 0, "ties_for_min": 0, "opt_changes": 0}
        self._last_best = {}
        self._best_seen = {}

    def _check(self, w, a, sol, where):
        calls = [c for c in a.calls if c.completed and c.phase in ("global", "global_extra", "pending")]
        if not calls:
            return
        self.probe["moments"] += 1
        rs = read_solution(sol)
        if rs is None:
            w.flag(self.prop, "unreadable", "%s: best trial unreadable at %s" % (a.aid, where), where)
            return
        pt, val = rs[0], rs[1]
        locs = [c for c in a.calls if c.completed and c.phase == "local"]
        cands = [c for c in calls + locs if c.y == pt]
        if not cands:
            w.flag(self.prop, "not_evaluated", "%s at %s: best point %r is not one of the %d evaluated points" % (a.aid, where, pt, len(calls)), where)
            return
        if not any(c.value == val for c in cands):
            w.flag(self.prop, "value", "%s at %s: best value %r, objective at the best point %r was %r" % (a.aid, where, val, pt, cands[0].value), where)
            return
        if not a.shipped:
            fv = a.f_side(pt)
            if fv != val:
                w.flag(self.prop, "value", "%s at %s: best value %r != f(best point)=%r" % (a.aid, where, val, fv), where)
                return
        mn = min(c.value for c in calls)
        if val > mn:
            worst = [c for c in calls if c.value == mn][0]
            w.flag(self.prop, "not_minimal", "%s at %s: best value %r but trial #%d at %r has value %r" % (a.aid, where, val, worst.idx, worst.y, mn), where)
            return
        if locs and not a.fired_faults and not a.fired_lfaults and not (a.active and a.cb_depth == 0):
            # (not judged from inside an objective evaluation: a refinement may be in progress)
            # fault-free run: the refinement reports the best point it evaluated, so no completed evaluation - global or
            # local - is smaller than the reported value (after a contained failure inside the refinement the global result
            # legitimately stands while better local points were seen: not judged then)
            mnl = min(c.value for c in locs)
            if val > mnl and not any(c.phase == "pending" for c in a.calls):
                worst = [c for c in locs if c.value == mnl][0]
                w.flag(self.prop, "not_minimal_local", "%s at %s: best value %r but the refinement evaluated %r with the smaller value %r (call #%d)"
                       % (a.aid, where, val, worst.y, mnl, worst.idx), where)
                return
        # the best trial reported (and verified) at an earlier moment - possibly a locally refined point - is an
        # evaluated trial too: the current best may not be worse than it
        prev = self._best_seen.get(a.aid)
        if prev is not None and val > prev[0]:
            w.flag(self.prop, "worsened", "%s at %s: best value %r at %r, but the best trial reported earlier (%s) was %r with the "
                   "smaller value %r" % (a.aid, where, val, pt, prev[2], prev[1], prev[0]), where)
            return
        if prev is None or val < prev[0]:
            self._best_seen[a.aid] = (val, pt, where)
        if sum(1 for c in calls if c.value == mn) > 1:
            self.probe["ties_for_min"] += 1
        if self._last_best.get(a.aid) != pt:
            self._last_best[a.aid] = pt
            self.probe["opt_changes"] += 1

    def on_callback(self, w, a, name, args):
        if name == "OnEndIteration":
            self.probe["in_callback"] += 1
            try:
                cur = a.solver.GetResults()
            except BaseException as e:
                _reraise_if_harness(e)
                return
            self._check(w, a, cur, "OnEndIteration/GetResults")
            if len(args) > 1:
                self._check(w, a, args[1], "OnEndIteration/solution")
        elif name == "OnMethodStop":
            self.probe["in_callback"] += 1
            if len(args) > 1:
                self._check(w, a, args[1], "OnMethodStop/solution")

    def _check_handed(self, w, a, where):
        """Solutions handed out earlier (by Solve / GetResults) are objects the user still holds: whenever they are looked at
        again they must report an evaluated point together with ITS value."""
        if a.active and a.cb_depth == 0:
            return
        done = [c for c in a.calls if c.completed and c.phase != "probe"]
        seen = set()
        for s in a.solutions:
            obj = s.get("obj")
            if obj is None or id(obj) in seen:
                continue
            seen.add(id(obj))
            rs = read_solution(obj)
            if rs is None:
                continue
            pt, val = rs[0], rs[1]
            hits = [c for c in done if c.y == pt]
            if hits and not any(c.value == val for c in hits):
                self.probe["handed_solutions_rechecked"] = self.probe.get("handed_solutions_rechecked", 0) + 1
                w.flag(self.prop, "handed_solution_inconsistent", "%s at %s: a Solution handed out earlier (by %s) now reports value %r at %r, where the "
                       "objective returned %r" % (a.aid, where, s.get("kind"), val, pt, hits[0].value), where)
                return

    def on_op_end(self, w, a, op, outcome):
        if not a.created:
            return
        if a.aborted == "float_exhausted" or a.solver is None:
            return
        self._check_handed(w, a, "after_" + op["op"])
        try:
            cur = a.solver.GetResults()
        except BaseException as e:
            _reraise_if_harness(e)
            return
        self._check(w, a, cur, "after_" + op["op"])
        if outcome.get("result") is not None:
            self._check(w, a, outcome["result"], "returned_by_" + op["op"])


# ----------------------------------------------------------------------------------- C05

class C05Monitor(Monitor):
    prop = "C05"

    def __init__(self):
        self.probe = {"local_evals": 0, "refinements": 0, "global_evals": 0, "result_points": 0}

    def _inside(self, a, y):
        # exact: global trials are cell centres (at least half a cell inside) and the bounded
        # Nelder-Mead clips to the bounds, so no rounding allowance is needed or granted
        for yi, lo, hi in zip(y, a.lower, a.upper):
            if not (lo <= yi <= hi):
                return False
        return True

    def on_eval(self, w, a, c):
        if c.phase == "probe":
            return
        if c.phase == "local" or (c.phase == "pending" and a.params.get("refineSolution")):
            self.probe["local_evals"] += 1
        else:
            self.probe["global_evals"] += 1
        if not self._inside(a, c.y):
            w.flag(self.prop, "eval_outside_box", "%s: objective evaluated at %r outside [%r, %r] (call #%d, during %s)"
                   % (a.aid, c.y, a.lower, a.upper, c.idx, a.cur_op), "refinement" if a.cur_op in ("refine",) or a.params.get("refineSolution") else "global")

    def on_op_end(self, w, a, op, outcome):
        kind = op["op"]
        if not a.created or a.aborted == "float_exhausted":
            return
        res = outcome.get("result")
        if res is None and kind == "refine":
            try:
                res = a.solver.GetResults()
            except BaseException as e:
                _reraise_if_harness(e)
        if res is None:
            return
        rs = read_solution(res)
        if rs is None:
            return
        self.probe["result_points"] += 1
        pt, val = rs[0], rs[1]
        if len(pt) == a.N and not self._inside(a, pt):
            w.flag(self.prop, "result_outside_box", "%s: %s returned point %r outside [%r, %r]" % (a.aid, kind, pt, a.lower, a.upper), kind)
        if a.spec.get("listeners") and kind in ("solve", "results") and not a.shipped and len(pt) == a.N and not a.fired_faults:
            done = [c for c in a.calls if c.completed and c.phase != "probe" and c.y == pt]
            if done and not any(c.value == val for c in done):
                w.flag(self.prop, "result_value", "%s: %s returned value %r at %r, where the objective returned %r" % (a.aid, kind, val, pt, done[0].value), kind)
            elif not done and a.f_side(pt) != val:
                w.flag(self.prop, "result_value", "%s: %s returned value %r at %r, a point that was never evaluated (the objective there is %r)"
                       % (a.aid, kind, val, pt, a.f_side(pt)), kind)
        refined = kind == "refine" or (kind == "solve" and a.params.get("refineSolution"))
        # (also after an objective failure inside the refinement - contained by Solve or caught by the caller: whatever is
        # reported then must still be a point with ITS value, and not worse than the best global trial)
        if refined and a.local_calls():
            self.probe["refinements"] += 1
            g = [c.value for c in a.global_calls()]
            if g and val > min(g):
                w.flag(self.prop, "refine_worse", "%s: refined value %r is worse than the best global trial %r" % (a.aid, val, min(g)), kind)
            if not a.shipped and len(pt) == a.N:
                fv = a.f_side(pt)
                if fv != val:
                    w.flag(self.prop, "refine_value", "%s: refined value %r != f(returned point)=%r" % (a.aid, val, fv), kind)


# ----------------------------------------------------------------------------------- C06

class C06Monitor(Monitor):
    prop = "C06"

    def __init__(self):
        self.probe = {"walks": 0, "items": 0, "in_callback": 0}
        self._img = {}

    def check_record(self, w, a, where, expect_trials=None, forbid_x=None):
        """The record rules.  Returns True if all hold."""
        items = a.walk()
        calls = [c for c in a.calls if c.completed and c.phase in ("global", "global_extra", "pending")]
        if expect_trials is not None:
            calls = calls[:expect_trials]
        if not calls and not items:
            return True
        self.probe["walks"] += 1
        self.probe["items"] += len(items)
        prop = self.prop
        ok = True

        def bad(clause, msg):
            nonlocal ok
            ok = False
            w.flag(prop, clause, "%s at %s: %s" % (a.aid, where, msg), where)
        if len(items) != len(calls) + 2:
            bad("count", "walk yields %d items, expected %d trials + 2 end points" % (len(items), len(calls)))
            return ok
        try:
            cnt = a.solver.searchData.GetCount()
            if cnt != len(items):
                bad("count", "GetCount()=%d but traversal yields %d" % (cnt, len(items)))
        except BaseException as e:
            _reraise_if_harness(e)
        xs = [float(it.GetX()) for it in items]
        if xs[0] != 0.0 or xs[-1] != 1.0:
            bad("ends", "end coordinates %r .. %r, expected 0.0 .. 1.0" % (xs[0], xs[-1]))
        for i in range(1, len(xs)):
            if not xs[i - 1] < xs[i]:
                bad("order", "coordinates not strictly increasing at position %d: %r, %r" % (i, xs[i - 1], xs[i]))
                return ok
        # links
        for i, it in enumerate(items):
            left = it.GetLeft()
            right = it.GetRight()
            if i == 0:
                if left is not None:
                    bad("links", "first item has a left neighbour")
            elif left is not items[i - 1]:
                bad("links", "item %d: left link is not its predecessor" % i)
            if i == len(items) - 1:
                if right is not None:
                    bad("links", "last item has a right neighbour")
            elif right is not items[i + 1]:
                bad("links", "item %d: right link is not its successor" % i)
        if not ok:
            return ok
        # bijection with the logged trials (by point and value)
        # Stated relaxation: each local refinement rewrites the point and value holder of the
        # then-best item in place; such items (at most one per refinement performed) are skipped.
        local_ops = {c.op_no for c in a.calls if c.phase == "local"}
        refined_pts = {c.y for c in a.calls if c.phase == "local"}
        allowed_skips = len(local_ops)
        pool = {}
        for c in calls:
            pool.setdefault(c.y, []).append(c)
        skipped = set()
        N = a.N
        read = {}
        for i, it in enumerate(items[1:-1], start=1):
            try:
                read[i] = (core.as_floats(it.GetY().floatVariables), float(it.GetZ()), float(it.functionValues[0].value))
            except BaseException as e:
                _reraise_if_harness(e)
                bad("unreadable", "item %d unreadable: %r" % (i, e))
        # pass 1: exact (point, z) matches - a refined item whose rewritten point happens to
        # coincide with another trial's point cannot steal that trial's log entry
        unmatched = []
        for i in sorted(read):
            y, z, fvv = read[i]
            lst = pool.get(y) or []
            hit = next((c for c in lst if c.value == z), None)
            if hit is None:
                unmatched.append(i)
                continue
            lst.remove(hit)
            if fvv != hit.value:
                if y in refined_pts and len(skipped) < allowed_skips and fvv in [c.value for c in a.calls if c.phase == "local" and c.completed]:
                    skipped.add(i)      # refinement returned its start point: only the holder was rewritten
                else:
                    bad("fidelity_value", "item %d at %r stores value %r, objective returned %r" % (i, y, fvv, hit.value))
            if forbid_x is not None and xs[i] == forbid_x:
                bad("failed_point_recorded", "item %d has the coordinate %r of the failed evaluation" % (i, forbid_x))
        # pass 2: what is left is either the item a refinement rewrote, or an infidelity
        for i in unmatched:
            y, z, fvv = read[i]
            if y in refined_pts and len(skipped) < allowed_skips:
                skipped.add(i)
                continue
            lst = pool.get(y) or []
            if lst:
                c = lst.pop()
                bad("fidelity_value", "item %d at %r stores z=%r, objective returned %r" % (i, y, z, c.value))
            else:
                bad("fidelity_point", "item %d at x=%r stores point %r which was never evaluated by the global search" % (i, xs[i], y))
        leftover = sum(len(v) for v in pool.values())
        if leftover > len(skipped):
            bad("missing", "%d evaluated trials are not in the search information" % (leftover - len(skipped)))
        ev = None
        # stored lengths and images
        if ev is None:
            try:
                ev = fresh_evolvent(a)
            except BaseException as e:
                _reraise_if_harness(e)
                ev = None
        for i, it in enumerate(items):
            if i > 0:
                try:
                    d = float(it.delta)
                except BaseException as e:
                    _reraise_if_harness(e)
                    bad("delta", "item %d: length unreadable" % i)
                    continue
                exp = pow(xs[i] - xs[i - 1], 1.0 / N)
                if not rel_eq(d, exp):
                    bad("delta", "item %d at x=%r stores length %r, (x-x_left)^(1/N)=%r" % (i, xs[i], d, exp))
            if ev is not None:
                key = (a.aid, xs[i])
                img = self._img.get(key)
                if img is None:
                    try:
                        img = core.as_floats(ev.GetImage(xs[i]))
                    except BaseException as e:
                        _reraise_if_harness(e)
                        img = ()
                    self._img[key] = img
                try:
                    y = core.as_floats(it.GetY().floatVariables)
                except BaseException as e:
                    _reraise_if_harness(e)
                    continue
                if img and y != img:
                    if i in skipped:
                        continue
                    bad("image", "item %d at x=%r stores point %r, evolvent image is %r" % (i, xs[i], y, img))
        return ok

    def on_callback(self, w, a, name, args):
        if name == "OnEndIteration":
            self.probe["in_callback"] += 1
            self.check_record(w, a, "OnEndIteration")

    def on_op_end(self, w, a, op, outcome):
        if not a.created or a.aborted == "float_exhausted":
            return
        if op["op"] == "create":
            return
        self.check_record(w, a, "after_" + op["op"])


# ----------------------------------------------------------------------------------- C20

class C20Monitor(Monitor):
    prop = "C20"

    def __init__(self):
        self.probe = {"coords": 0}

    def on_eval(self, w, a, c):
        if c.phase not in ("global", "pending"):
            return
        if a.params.get("refineSolution") and c.phase == "pending":
            # may be a local-refinement evaluation; decided at the end (on_op_end)
            return
        self._check(w, a, c)

    def _check(self, w, a, c):
        m = int(a.params.get("evolventDensity", 10))
        for i, (yi, lo, hi) in enumerate(zip(c.y, a.lower, a.upper)):
            self.probe["coords"] += 1
            u = (yi - lo) / (hi - lo) * (2 ** m) - 0.5
            j = round(u)
            if abs(u - j) > 1e-6 or not (0 <= j < 2 ** m):
                w.flag(self.prop, "off_grid", "%s: trial #%d coordinate %d = %r is not lower+(j+1/2)*side/2^%d (u=%r)" % (a.aid, c.idx, i, yi, m, u), "global_trial")
                return

    def on_op_end(self, w, a, op, outcome):
        if op["op"] == "solve" and a.params.get("refineSolution"):
            for c in a.calls:
                if c.op_no == a.op_no and c.phase == "global" and c.completed:
                    self._check(w, a, c)
