"""Suites: one per claimed property.  A suite turns a run seed into one or more plans
(`cases`) and decides a plan (`check`).  `check` is a pure function of (plan, code)."""
import copy
import random
from collections import Counter

from . import core
from . import gen_solver as G
from . import objectives
from . import world as _world          # eager: every forked run starts from the post-import state
from . import oracles as _oracles      # noqa: F401
from iOpt.evolvent.evolvent import Evolvent as _Evolvent  # noqa: F401
import scipy.optimize as _so           # noqa: F401


class Report:
    def __init__(self):
        self.violations = []
        self.nontrivial = None       # hashable key if the case is non-trivial by the suite's rule
        self.probes = Counter()
        self.fired = Counter()
        self.inconclusive = Counter()
        self.sim_time = 0.0
        self.digest = ""
        self.sig = ""
        self.n_exec = 1
        self.n_ops = 0

    def absorb_world(self, w):
        self.violations.extend(w.violations)
        self.fired.update(w.fired)
        self.inconclusive.update(w.inconclusive)
        self.sim_time += w.clock.elapsed()
        self.n_ops += w.n_ops
        for a in w.actors.values():
            for k, v in a.model.probe.items():
                self.probes["agp_" + k] += v
            if a.aborted:
                self.inconclusive["actor_" + a.aborted] += 1


def interleave(rng, lists, burst=None):
    """Merge op lists preserving each list's order.  burst in (0,1]: probability of staying
    with the same actor (from 'finish one, then the next' to strict alternation)."""
    lists = [list(l) for l in lists if l]
    burst = rng.choice([0.0, 0.3, 0.6, 0.9]) if burst is None else burst
    out = []
    cur = None
    while lists:
        if cur is None or cur not in range(len(lists)) or rng.random() >= burst:
            cur = rng.randrange(len(lists))
        out.append(lists[cur].pop(0))
        if not lists[cur]:
            lists.pop(cur)
            cur = None
    return out


class SolverSuite:
    """Base for suites executed by the solver world with a single monitor."""
    prop = None
    level = "exploration"
    quick_runs = 1000
    thorough_runs = 10000
    rule = ""

    def monitors(self):
        raise NotImplementedError

    def cases(self, rng, tier, run_seed, idx=0):
        yield self.gen_plan(rng, tier, run_seed)

    def check(self, plan):
        from .world import World
        rep = Report()
        mons = self.monitors()
        w = World(plan, mons).run()
        rep.absorb_world(w)
        rep.digest = w.digest()
        rep.sig = core.short_hash(w.sig)
        for m in mons:
            for k, v in getattr(m, "probe", {}).items():
                rep.probes[k] += v
        rep.nontrivial = self.nontrivial_key(plan, w)
        return rep

    def nontrivial_key(self, plan, w):
        return None

    # helpers
    @staticmethod
    def spec_key(plan):
        return core.short_hash({k: (v["objective"], v.get("lower"), v.get("upper"), v["params"]["r"]) for k, v in plan["actors"].items()})


DEFAULT_PARAMS = {"r": 2.0, "eps": 0.01, "itersLimit": 20000, "evolventDensity": 10, "refineSolution": False}


def _maybe_company(rng, plan_actors, ops, max_iters=40, force=False):
    """With some probability add a second solver whose steps are interleaved (top level).  Sometimes the two solvers
    are given ONE SolverParameters object (explicitly, or the library's default argument), as user code does."""
    if force or rng.random() < 0.2:
        s0 = plan_actors["S0"]
        dims = (1, 2, 3, 4, 5)
        plan_actors["S1"] = G.gen_actor(rng, max_iters=max_iters, shipped_prob=0.0, refine=False, dims=dims)
        s1 = plan_actors["S1"]
        u = rng.random()
        if u < 0.3 and s0["params"].get("evolventDensity", 10) == 10:
            s1["params"] = dict(s0["params"])
            s0["params_obj"] = s1["params_obj"] = "shared:P"
        elif u < 0.45:
            s1 = G.share_problem(rng, plan_actors, "S0", "S1", max_iters=max_iters)     # two solvers, ONE Problem object
        n = s1["params"]["itersLimit"]
        ops2 = G.gen_single_ops(rng, "S1", rng.randint(0, min(n, 20)), with_solve=rng.random() < 0.8)
        if rng.random() < 0.1:
            s1["holder"] = "new"
        return interleave(rng, [ops, ops2])
    if rng.random() < 0.04:
        plan_actors["S0"]["holder"] = "new"
    return ops


def gen_extreme(rng, prop, run_seed, dims=(1, 1, 2, 3)):
    """A plan of the "extreme values" run class: one solver on an objective whose values are finite but of magnitude
    1e150-1e307, or that answers inf / -inf / NaN beyond the level of its first evaluation."""
    N = rng.choice(dims)
    lo, up = objectives.gen_box(rng, N)
    return {"property": prop, "suite": "liveness", "format": 1, "run_seed": run_seed, "N": N, "lower": lo, "upper": up,
            "objective": objectives.gen_spec(rng, N, lo, up), "scale": rng.choice([1e150, 1e154, 1e155, 1e160, 1e200, 1e300, -1e160, 1e307, 1.0, 1.0]),
            "offset": rng.choice([0.0, 1.0, -3.0]), "value_type": rng.choice([None, None, "np.float64"]),
            "params": {"r": G.gen_r(rng), "eps": G.gen_eps(rng, N), "itersLimit": rng.randint(2, 60), "refineSolution": False,
                       "evolventDensity": rng.choice([10, 10, rng.randint(2, 12)])},
            "pre": rng.choice([0, 0, rng.randint(1, 5)]), "cpu_s": 5,
            # a barrier objective: beyond the level of its first evaluation it answers with a non-finite number
            "barrier": rng.choice([None, None, None, "inf", "inf", "-inf", "nan"])}


def run_extreme(plan):
    """Execute an extreme-values plan: Solver on a plain Problem subclass that logs every evaluation, an interval timer as
    wall watchdog (Solve contains every exception, the watchdog's too: `fired` tells a return from a rescue).  Returns the
    facts every suite judges its own clause on: the call log, the returned Solution, the search information."""
    import signal
    import numpy as np
    from iOpt.problem import Problem
    from iOpt.solver import Solver
    from iOpt.solver_parametrs import SolverParameters
    f = objectives.build(plan["objective"])
    k, c, vt = float(plan["scale"]), float(plan["offset"]), plan.get("value_type")
    calls = []
    level = []

    class P(Problem):
        def __init__(self):
            super().__init__()
            self.name = "huge"
            self.dimension = self.numberOfFloatVariables = plan["N"]
            self.numberOfDisreteVariables = 0
            self.numberOfObjectives, self.numberOfConstraints = 1, 0
            self.floatVariableNames = np.array([str(i) for i in range(plan["N"])])
            self.lowerBoundOfFloatVariables = np.array(plan["lower"], dtype=np.double)
            self.upperBoundOfFloatVariables = np.array(plan["upper"], dtype=np.double)

        def Calculate(self, point, functionValue):
            y = [float(v) for v in point.floatVariables]
            v = k * (f(y) + c)
            if plan.get("barrier") and calls and f(y) > level[0]:
                v = float(plan["barrier"])
            elif not calls:
                level.append(f(y))
            calls.append((tuple(y), v))
            functionValue.value = np.float64(v) if vt == "np.float64" else v
            return functionValue
    fired = []

    def on_alarm(signum, frame):
        fired.append(len(calls))
        # the verdict is settled (the run is reported as not terminating); what follows only gets the process back: Solve
        # swallows the exception raised here and would loop on, so its budget is declared used up as well
        sp.itersLimit = 0
        raise core.WatchdogStop("watchdog: Solve did not return within %s s of CPU time" % plan.get("cpu_s", 5))
    pr = plan["params"]
    sp = SolverParameters(eps=pr["eps"], r=pr["r"], itersLimit=pr["itersLimit"], refineSolution=False,
                          evolventDensity=int(pr.get("evolventDensity", 10)))
    solver = Solver(P(), sp)
    # (the watchdog runs on the process's CPU time, not on the wall clock: a hang inside the library burns CPU, whereas a busy
    # machine must not turn a slow run into an alarm)
    old = signal.signal(signal.SIGVTALRM, on_alarm)
    signal.setitimer(signal.ITIMER_VIRTUAL, float(plan.get("cpu_s", 5)), 0.5)
    raised = None
    sol = None
    try:
        try:
            if plan.get("pre"):
                solver.DoGlobalIteration(int(plan["pre"]))
        except core.WatchdogStop:
            raise
        except BaseException as e:       # (a refusal to go on is not a hang; Solve is what the properties speak about)
            raised = type(e).__name__
        sol = solver.Solve()
    except core.WatchdogStop:
        if not fired:
            raise            # (the runner's own wall watchdog, not this run's CPU watchdog)
    finally:
        signal.setitimer(signal.ITIMER_VIRTUAL, 0.0)
        signal.signal(signal.SIGVTALRM, old)
    facts = {"calls": calls, "fired": fired, "raised_pre": raised, "solution": None, "items": None,
             "what": "objective values of magnitude %g%s" % (abs(k), " with a %s barrier" % plan["barrier"] if plan.get("barrier") else "")}
    if sol is not None and not fired:
        try:
            bt = sol.bestTrials[0]
            facts["solution"] = {"point": tuple(float(v) for v in bt.point.floatVariables), "value": float(bt.functionValues[0].value),
                                 "n_trials": int(sol.numberOfGlobalTrials)}
        except BaseException as e:
            facts["solution"] = {"point": None, "value": None, "n_trials": int(getattr(sol, "numberOfGlobalTrials", -1)), "unreadable": repr(e)}
        items = []
        try:
            for it in solver.searchData:
                lf, rt = it.GetLeft(), it.GetRight()
                items.append({"x": float(it.GetX()), "y": tuple(float(v) for v in it.GetY().floatVariables), "z": float(it.GetZ()),
                              "delta": float(it.delta), "left_x": None if lf is None else float(lf.GetX()),
                              "right_x": None if rt is None else float(rt.GetX()),
                              "left_back": lf is None or lf.GetRight() is it, "right_back": rt is None or rt.GetLeft() is it})
            facts["items"] = items
        except BaseException as e:
            facts["items"] = repr(e)
    return facts


def extreme_report(prop, plan, facts):
    rep = Report()
    rep.probes["extreme_value_runs"] += 1
    rep.probes["extreme_value_runs_where_the_queue_refused_an_interval"] += int(facts["raised_pre"] is not None)
    rep.n_ops = 2
    rep.digest = core.short_hash([(y, repr(v)) for y, v in facts["calls"]] + [bool(facts["fired"])])
    rep.sig = rep.digest
    rep.nontrivial = rep.digest if len(facts["calls"]) >= 2 else None
    return rep


class C02(SolverSuite):
    prop = "C02"
    quick_runs = 12000
    thorough_runs = 150000
    rule = ("one seeded plan = one or two solvers driven by a random mixture of DoGlobalIteration(k)/Solve/GetResults; "
            "every trial of every prefix is checked against the from-scratch AGP model. non-trivial: >=10 trials, the slope "
            "estimate M grew above its floor at least once and at least one non-boundary interval was subdivided; distinct = "
            "hash of (objective spec, box, r)")

    def monitors(self):
        from .oracles import C02Monitor
        return [C02Monitor()]

    def gen_plan(self, rng, tier, run_seed):
        u = rng.random()
        if u < 0.7:
            L = rng.randint(8, 80)
        elif u < 0.97 or tier == "quick":
            L = rng.randint(80, 400)
        else:
            L = rng.randint(400, 2500)
        spec = G.gen_actor(rng, max_iters=L, refine=(rng.random() < 0.1), small_iters_prob=0.05)
        if spec["objective"]["N"] >= 2 and rng.random() < 0.2:
            # coarse or fine evolvents: with a coarse one the search soon works inside single cells (many trials at one y)
            spec["params"]["evolventDensity"] = rng.choice([2, 3, 4, 5, 6, 8, 12])
        lim = spec["params"]["itersLimit"]
        if rng.random() < 0.6:
            spec["params"]["itersLimit"] = lim = L
        pre = rng.choice([0, 0, rng.randint(0, max(1, L // 2)), L])
        ops = G.gen_single_ops(rng, "S0", pre, with_solve=rng.random() < 0.85,
                               after_solve_iters=rng.choice([0, 0, rng.randint(1, 12)]))
        if rng.random() < 0.25:
            # Solve again (finished or not), then keep stepping
            ops.append({"a": "S0", "op": "solve"})
            for k in G.gen_batches(rng, rng.randint(1, 6)):
                ops.append({"a": "S0", "op": "iterate", "k": k})
        actors = {"S0": spec}
        if spec.get("lower") is not None and rng.random() < 0.1:
            # a shallow objective: the slope estimate M stays at its floor 1 for long stretches
            spec["objective"] = {"family": "scaled", "N": spec["objective"]["N"], "inner": spec["objective"], "k": rng.choice([0.01, 0.05, 0.2])}
        ops = G.sprinkle_evq(rng, ops, "S0", spec, refill=True)
        ops = G.sprinkle_clone(rng, ops, "S0", spec=spec)
        ops = G.sprinkle_misc(rng, ops, "S0")
        ops = _maybe_company(rng, actors, ops)
        if rng.random() < 0.06 and "params_obj" not in spec:
            # build, then tune, then solve: r is assigned on the parameters object before the first iteration
            i0 = next(i for i, o in enumerate(ops) if o["a"] == "S0" and o["op"] == "create")
            ops = ops[:i0 + 1] + [{"a": "S0", "op": "setp", "field": "r", "value": G.gen_r(rng)}] + ops[i0 + 1:]
        plan = gen_self_reads(rng, G.base_plan(self.prop, run_seed, actors, ops, clock=G.gen_clock(rng)))
        if rng.random() < 0.08:
            # a listener of the user fails once and the caller carries on: the completed iterations are all there, so the
            # decision rule keeps holding for every later trial (unlike after an objective failure, which loses an interval)
            G.add_listener_fault(rng, plan)
        elif rng.random() < 0.05 and "S1" not in actors and not spec["params"].get("refineSolution"):
            # the objective fails once inside the plan's LAST operation, a Solve: the search ends there (the interval being
            # split is lost), so every trial that Solve still reports must have been placed by the rule - i.e. there are none
            # after the failure
            its = [o for o in plan["ops"] if o["op"] == "iterate"]
            cut = next((i for i, o in enumerate(plan["ops"]) if o["op"] == "solve"), len(plan["ops"]))
            its = [o for o in plan["ops"][:cut] if o["op"] == "iterate"]          # (only the batches before the first Solve)
            plan["ops"] = [{"a": "S0", "op": "create"}] + its + [{"a": "S0", "op": "solve"}]
            n_pre = sum(o.get("k", 0) for o in plan["ops"] if o["op"] == "iterate")
            spec["params"]["itersLimit"] = n_pre + rng.randint(10, 60)
            spec["params"]["eps"] = G.EPS_MIN[spec["objective"]["N"]]
            plan["faults"] = [{"a": "S0", "at_eval": n_pre + rng.randint(2, 8), "exc": rng.choice(["ValueError", "KeyboardInterrupt", "SimFault"]),
                               "when": rng.choice(["before", "after"]), "persistent": False}]
            plan["nested"] = []
        return plan

    def cases(self, rng, tier, run_seed, idx=0):
        if idx % 40 == 13:
            # driver-stepped onto a sharp minimum / a box corner until double precision is exhausted: the library must stop
            # with its own error exactly when the rule's point is no longer strictly inside the interval, not before, and never
            # evaluate a coordinate twice
            N = rng.choice([1, 1, 2])
            lower, upper = objectives.gen_box(rng, N)
            fam = rng.choice([["linear"], ["cones"], ["cones"]])
            obj = objectives.gen_spec(rng, N, lower, upper, fam)
            if obj["family"] == "cones":
                obj["terms"] = obj["terms"][:1]
            spec = {"kind": "solver", "objective": obj, "lower": lower, "upper": upper,
                    "params": {"r": G.gen_r(rng), "eps": 1e-30, "itersLimit": rng.randint(200, 500), "evolventDensity": 10, "refineSolution": False},
                    "listeners": []}
            ops = [{"a": "S0", "op": "create"}] + [{"a": "S0", "op": "iterate", "k": k} for k in G.gen_batches(rng, rng.randint(60, 160) * N)]
            if rng.random() < 0.4:
                ops.append({"a": "S0", "op": "solve"})
            yield G.base_plan(self.prop, run_seed, {"S0": spec}, ops, clock=G.gen_clock(rng), corner_run=True)
            return
        if tier == "thorough" and idx % 1500 == 77:
            # very long driver-stepped histories (5-16 thousand trials, N=1..2) on plateau-rich and ordinary objectives:
            # thousands of consecutive iterations without a change of M or z* (a characteristics queue that silently
            # loses entries, e.g. a bounded one, only shows then)
            N = rng.choice([1, 1, 2])
            lower, upper = objectives.gen_box(rng, N, kind=rng.choice(["unit", "sym", "asym"]))
            fam = rng.choice([["step"], ["step"], ["lattice"], ["const"], ["const"], ["cones"], ["sines"]])
            spec = {"kind": "solver", "objective": objectives.gen_spec(rng, N, lower, upper, fam), "lower": lower, "upper": upper,
                    "params": {"r": G.gen_r(rng), "eps": 1e-9, "itersLimit": 20000, "evolventDensity": 10 if N == 1 else 12,
                               "refineSolution": False}, "listeners": []}
            total = rng.randint(5000, 16000)
            ops = [{"a": "S0", "op": "create"}] + [{"a": "S0", "op": "iterate", "k": k} for k in G.gen_batches(rng, total, style="mixed")]
            yield G.base_plan(self.prop, run_seed, {"S0": spec}, ops, clock=G.gen_clock(rng), long_run=total, wall_s=900)
            return
        yield self.gen_plan(rng, tier, run_seed)

    def nontrivial_key(self, plan, w):
        a = w.actors["S0"]
        p = a.model.probe
        if len(a.trials) >= 10 and p["M_grew"] >= 1 and p["interior_chosen"] >= 1:
            return self.spec_key(plan)
        return None


class C03(SolverSuite):
    prop = "C03"
    quick_runs = 12000
    thorough_runs = 150000
    rule = ("Solve-driven plans over objectives/boxes/r with edge configurations: itersLimit in {1,2,3}, eps>=1, eps placed "
            "1e-6 above/below an interval length the same search is known to subdivide (pre-run), budgets T*-1,T*,T*+1, optional "
            "DoGlobalIteration prefix. non-trivial: model stop index T*>=3 or an enumerated edge configuration; distinct = hash of "
            "(objective, box, r, eps, itersLimit, prefix)")

    def monitors(self):
        from .oracles import C03Monitor
        return [C03Monitor()]

    # -- bounded liveness on objectives whose values are finite but astronomically large (their squares overflow a double)
    # or that answer with a non-finite number beyond a level: "Solve always terminates ... for every objective", and what it
    # reports as the number of trials is the number of evaluations it made.  The run is its own small simulation (run_extreme,
    # below), outside the solver world, whose reference model cannot follow non-finite characteristics.
    def check(self, plan):
        if plan.get("suite") == "liveness":
            facts = run_extreme(plan)
            rep = extreme_report(self.prop, plan, facts)
            pr = plan["params"]
            if facts["fired"]:
                rep.violations.append(core.Violation(self.prop, "no_termination", "%s: Solve was still running after %s s of CPU time with %d "
                                                     "evaluations made (itersLimit=%d); it only came back because the watchdog interrupted it"
                                                     % (facts["what"], plan.get("cpu_s", 5), facts["fired"][0], pr["itersLimit"]), "Solve"))
            elif len(facts["calls"]) > max(pr["itersLimit"], int(plan.get("pre") or 0)) + 1:
                rep.violations.append(core.Violation(self.prop, "budget", "%s: %d evaluations, itersLimit=%d"
                                                     % (facts["what"], len(facts["calls"]), pr["itersLimit"]), "Solve"))
            elif facts["solution"] is not None and facts["solution"]["n_trials"] != len(facts["calls"]):
                rep.violations.append(core.Violation(self.prop, "count", "%s: the result reports %d global trials, the objective was evaluated %d times"
                                                     % (facts["what"], facts["solution"]["n_trials"], len(facts["calls"])), "Solve"))
            return rep
        return super().check(plan)

    def cases(self, rng, tier, run_seed, idx=0):
        if idx % 50 == 7:
            yield gen_extreme(rng, self.prop, run_seed)
            return
        yield self.gen_plan(rng, tier, run_seed)

    def gen_plan(self, rng, tier, run_seed):
        L = rng.randint(5, 120) if rng.random() < 0.85 else rng.randint(120, 500 if tier == "quick" else 2000)
        spec = G.gen_actor(rng, max_iters=L, refine=(rng.random() < 0.15), small_iters_prob=0.2)
        edge = None
        if rng.random() < 0.5:
            edge = self._edge(rng, spec, L)
        pre = rng.choice([0, 0, 0, rng.randint(1, 6), rng.randint(1, max(2, L))])
        ops = [{"a": "S0", "op": "create"}]
        for k in (G.gen_batches(rng, pre) if pre else []):
            ops.append({"a": "S0", "op": "iterate", "k": k})
        ops.append({"a": "S0", "op": "solve"})
        if rng.random() < 0.3:
            ops.append({"a": "S0", "op": "results"})
        if rng.random() < 0.25:
            ops.append({"a": "S0", "op": "solve"})
        if rng.random() < 0.1:
            ops.append({"a": "S0", "op": "iterate", "k": rng.randint(1, 5)})
            ops.append({"a": "S0", "op": "solve"})
        if rng.random() < 0.12:
            # the user changes the budget / accuracy on the parameters object and resumes
            for _ in range(rng.randint(1, 2)):
                if rng.random() < 0.7:
                    lim_now = spec["params"]["itersLimit"] + sum(o["value"] - spec["params"]["itersLimit"] for o in ops if o.get("field") == "itersLimit")
                    ops.append({"a": "S0", "op": "setp", "field": "itersLimit", "value": int(max(1, lim_now + rng.choice([-3, 1, 2, 5, 20])))})
                else:
                    ops.append({"a": "S0", "op": "setp", "field": "eps", "value": float("%.3g" % (spec["params"]["eps"] * rng.choice([0.5, 0.1, 2.0])))})
                ops.append({"a": "S0", "op": "solve"})
        ops = G.sprinkle_evq(rng, ops, "S0", spec, prob=0.1)
        ops = G.sprinkle_misc(rng, ops, "S0", prob=0.08)
        ops = G.sprinkle_clone(rng, ops, "S0", prob=0.06, spec=spec)
        if rng.random() < 0.08:
            # refine explicitly, then search on (and Solve again)
            ops += [{"a": "S0", "op": "refine", "n": rng.choice([1, 5, 25])}, {"a": "S0", "op": "iterate", "k": rng.randint(1, 6)}, {"a": "S0", "op": "solve"}]
        plan = G.base_plan(self.prop, run_seed, {"S0": spec}, ops, clock=G.gen_clock(rng))
        plan["edge"] = edge
        gen_self_reads(rng, plan)
        if rng.random() < 0.15:
            # company: a second solver (often of another dimension) is constructed / stepped in between
            actors = plan["actors"]
            plan["ops"] = _maybe_company(rng, actors, plan["ops"], force=True)
        u = rng.random()
        if u < 0.05:
            # the very first evaluation fails once (nothing has been recorded yet): the caller simply starts again, and the run
            # must then be exactly the fault-free run
            plan["faults"] = [{"a": "S0", "at_eval": 1, "exc": rng.choice(["ValueError", "KeyboardInterrupt", "SimFault"]),
                               "when": rng.choice(["before", "after"]), "persistent": False, "noargs": rng.random() < 0.3}]
            plan["continue_after_fault"] = True
            plan["ops"].append({"a": "S0", "op": "solve"})
            return plan
        if u < 0.09:
            # a listener of the user fails once in BeforeMethodStart (nothing has happened yet), then the caller starts again
            spec["listeners"] = [{"kind": "recording", "overrides": ["BeforeMethodStart"]}]
            plan["lfaults"] = [{"a": "S0", "lid": 0, "cb": "BeforeMethodStart", "index": 1, "exc": rng.choice(["ValueError", "KeyboardInterrupt"])}]
            plan["continue_after_fault"] = True
            plan["ops"].append({"a": "S0", "op": "solve"})
            return plan
        if rng.random() < 0.12:
            # fault configuration: the objective raises once - inside a DoGlobalIteration batch (the caller catches it) or
            # inside Solve (contained) - and the caller goes on to Solve: the budget must still bind
            spec["params"]["refineSolution"] = False
            if rng.random() < 0.7:
                spec["params"]["eps"] = G.EPS_MIN[spec["objective"]["N"]]
            lim = spec["params"]["itersLimit"]
            pre_b = G.gen_batches(rng, rng.randint(2, max(2, min(lim, 30))), style=rng.choice(["small", "mixed", "big"]))
            ops = [{"a": "S0", "op": "create"}] + [{"a": "S0", "op": "iterate", "k": k} for k in pre_b]
            ops += [{"a": "S0", "op": "solve"}] + ([{"a": "S0", "op": "solve"}] if rng.random() < 0.3 else [])
            plan["ops"] = ops
            plan["faults"] = [{"a": "S0", "at_eval": rng.randint(1, sum(pre_b) + 3), "exc": rng.choice(["ValueError", "KeyboardInterrupt", "SimFault"]),
                               "when": rng.choice(["before", "after"]), "persistent": rng.random() < 0.3, "noargs": rng.random() < 0.3}]
            plan["continue_after_fault"] = True
        return plan

    def _edge(self, rng, spec, L):
        """Place eps / itersLimit on the off-by-one edges of the same search (pre-run)."""
        from .world import World
        pre = copy.deepcopy(spec)
        pre["params"]["refineSolution"] = False
        n = min(L, 60)
        w = World(G.base_plan("pre", 0, {"S0": pre}, [{"a": "S0", "op": "create"}, {"a": "S0", "op": "iterate", "k": n}])).run()
        a = w.actors["S0"]
        lens = [v for v in a.model.chosen if v is not None]
        if len(lens) < 2:
            return None
        i = rng.randrange(len(lens))
        kind = rng.choice(["eps_above", "eps_below", "eps_equal"])
        ell = lens[i]
        eps = ell * (1 + 1e-6) if kind == "eps_above" else ell * (1 - 1e-6) if kind == "eps_below" else ell
        spec["params"]["eps"] = eps
        m = a.model
        t = None
        mn = float("inf")
        for j, v in enumerate(m.chosen):
            if v is not None and v < mn:
                mn = v
            if mn < eps:
                t = j + 2
                break
        bk = rng.choice(["big", "T-1", "T", "T+1"])
        if t is not None and bk != "big":
            spec["params"]["itersLimit"] = max(1, t + {"T-1": -1, "T": 0, "T+1": 1}[bk])
        else:
            spec["params"]["itersLimit"] = max(spec["params"]["itersLimit"], n + 5)
        return kind + "/" + bk

    def nontrivial_key(self, plan, w):
        a = w.actors["S0"]
        p = a.params
        t = a.model.stop_index(p["eps"], int(p["itersLimit"]))
        edge = plan.get("edge") or (p["itersLimit"] <= 3) or (p["eps"] >= 1)
        if a.solve_info and ((t is not None and t >= 3) or edge):
            return core.short_hash((plan["actors"]["S0"]["objective"], a.lower, a.upper, p["r"], p["eps"], p["itersLimit"],
                                    [o.get("k") for o in plan["ops"]]))
        return None


TIE_FAMILIES = ["const", "lattice", "lattice", "step", "step", "cones", "sines"]


class C04(SolverSuite):
    prop = "C04"
    quick_runs = 12000
    thorough_runs = 150000
    rule = ("tie-heavy objectives (const, lattice k/8, step) and ordinary ones; the best-trial invariant is evaluated after every "
            "op, inside every OnEndIteration/OnMethodStop callback and on every returned Solution, alone and in the company of an "
            "interleaved second solver, with optional refinement. non-trivial: the optimum changed >=2 times or >=2 trials tie "
            "for the minimum; distinct = hash of (objective, box, r, schedule signature)")

    def monitors(self):
        from .oracles import C04Monitor
        return [C04Monitor()]

    # extreme values (see run_extreme): the reported optimum is an evaluated trial with its value, and no evaluated trial is
    # smaller - also when the interval of that very trial could not be queued (inf - inf)
    def cases(self, rng, tier, run_seed, idx=0):
        if idx % 60 == 9:
            yield gen_extreme(rng, self.prop, run_seed)
            return
        yield self.gen_plan(rng, tier, run_seed)

    def check(self, plan):
        if plan.get("suite") != "liveness":
            return super().check(plan)
        facts = run_extreme(plan)
        rep = extreme_report(self.prop, plan, facts)
        sol, calls = facts["solution"], facts["calls"]
        if sol is None or not calls:
            rep.inconclusive["extreme_run_without_result"] += 1
            return rep
        vals = [v for _, v in calls]
        if any(v != v for v in vals):
            rep.inconclusive["extreme_run_with_nan_values"] += 1      # "smallest" is not defined among NaNs
            return rep

        def bad(clause, msg):
            rep.violations.append(core.Violation(self.prop, clause, "%s: %s" % (facts["what"], msg), "Solve"))
        if sol.get("unreadable") or sol["point"] is None:
            bad("unreadable", "the returned Solution has no readable best trial (%s) after %d evaluations" % (sol.get("unreadable"), len(calls)))
        elif sol["point"] not in [y for y, _ in calls]:
            bad("not_evaluated", "reported best point %r is not one of the %d evaluated points" % (sol["point"], len(calls)))
        elif sol["value"] not in [v for y, v in calls if y == sol["point"]]:
            bad("value_mismatch", "reported value %r at %r, the objective answered %r there" % (sol["value"], sol["point"], [v for y, v in calls if y == sol["point"]]))
        elif min(vals) < sol["value"]:
            bad("not_minimal", "reported best value %r, but an evaluated trial has %r" % (sol["value"], min(vals)))
        return rep

    def gen_plan(self, rng, tier, run_seed):
        L = rng.randint(4, 70) if rng.random() < 0.9 else rng.randint(70, 300)
        fams = TIE_FAMILIES if rng.random() < 0.7 else None
        spec = G.gen_actor(rng, max_iters=L, families=fams, refine=(rng.random() < 0.2), shipped_prob=0.08)
        if rng.random() < 0.5:
            spec["params"]["itersLimit"] = L
        if L <= 40 and rng.random() < 0.1:
            # shipped console / painting listeners observe (and must not touch) the optimum
            from .suites_multi import gen_listeners
            spec["listeners"] = [ls for ls in gen_listeners(rng, spec["objective"]["N"], L)
                                 if ls.get("mode") not in ("interpolation", "approximation") and ls.get("calc") != "interpolation"]
            spec["params"]["itersLimit"] = min(spec["params"]["itersLimit"], L)
        pre = rng.choice([0, rng.randint(0, L), rng.randint(0, L)])
        ops = G.gen_single_ops(rng, "S0", pre, with_solve=rng.random() < 0.8, results_prob=0.4,
                               after_solve_iters=rng.choice([0, rng.randint(1, 8)]), refine_ops=rng.random() < 0.2)
        if rng.random() < 0.1:
            # refine, search on, refine again (a short second refinement)
            ops.append({"a": "S0", "op": "refine", "n": rng.choice([5, 25, 50])})
            for k in G.gen_batches(rng, rng.randint(1, 20)):
                ops.append({"a": "S0", "op": "iterate", "k": k})
            ops += [{"a": "S0", "op": "refine", "n": rng.choice([0, 1, 1, 5])}, {"a": "S0", "op": "results"}]
        actors = {"S0": spec}
        ops = G.sprinkle_evq(rng, ops, "S0", spec)
        ops = G.sprinkle_clone(rng, ops, "S0", spec=spec)
        ops = G.sprinkle_misc(rng, ops, "S0")
        ops = _maybe_company(rng, actors, ops)
        plan = G.base_plan(self.prop, run_seed, actors, ops, clock=G.gen_clock(rng))
        if "S1" in actors and rng.random() < 0.5:
            plan["nested"] = gen_nested(rng, plan, max_entries=2)
        gen_self_reads(rng, plan)
        if rng.random() < 0.06 and not spec.get("listeners"):
            return G.add_listener_fault(rng, plan)
        if spec["params"].get("refineSolution") and not spec.get("listeners") and rng.random() < 0.3:
            # fault configuration with refinement on: the failing evaluation may be a global trial, any Nelder-Mead
            # evaluation, or the final re-evaluation of the refined point (contained by Solve; the driver goes on)
            plan["faults"] = [{"a": "S0", "at_eval": rng.randint(2, max(3, 2 * min(spec["params"]["itersLimit"], L) + 12)),
                               "exc": rng.choice(["ValueError", "KeyboardInterrupt", "SimFault"]), "when": rng.choice(["before", "after"]),
                               "persistent": False, "noargs": rng.random() < 0.2}]
            plan["continue_after_fault"] = True
            return plan
        return maybe_fault(rng, plan)

    def nontrivial_key(self, plan, w):
        m = w.monitors[0]
        if m.probe["opt_changes"] >= 2 or m.probe["ties_for_min"] >= 1:
            return core.short_hash((self.spec_key(plan), w.sig))
        return None


ADVERSARIAL = ["linear", "linear", "paraboloid", "paraboloid", "cones", "sines"]


class C05(SolverSuite):
    prop = "C05"
    quick_runs = 12000
    thorough_runs = 150000
    rule = ("adversarial environments (linear, paraboloid with the vertex outside the box, cones centred outside) with the "
            "domain trap on: every call crossing the objective seam in the global and local phases and every returned point is "
            "checked against the box; refinement via refineSolution and via explicit DoLocalRefinement(n), n in {-1,1,5,50}. "
            "non-trivial: refinement performed >=1 local evaluation; distinct = hash of (objective, box, params)")

    def monitors(self):
        from .oracles import C05Monitor
        return [C05Monitor()]

    def gen_plan(self, rng, tier, run_seed):
        if rng.random() < 0.03:
            # driver-stepped (no stop rule) onto a box corner until double precision is exhausted: the trial points approach
            # the bound to within rounding of the cube-to-box map (defect 11)
            N = rng.choice([1, 1, 1, 2])
            lower, upper = objectives.gen_box(rng, N)
            spec = {"kind": "solver", "objective": objectives.gen_spec(rng, N, lower, upper, ["linear"]), "lower": lower, "upper": upper,
                    "params": {"r": G.gen_r(rng), "eps": 1e-9, "itersLimit": 500, "evolventDensity": 10, "refineSolution": False},
                    "listeners": []}
            ops = [{"a": "S0", "op": "create"}] + [{"a": "S0", "op": "iterate", "k": k} for k in G.gen_batches(rng, rng.randint(56, 80) * N)]
            return G.base_plan(self.prop, run_seed, {"S0": spec}, ops, clock=G.gen_clock(rng), corner_run=True)
        L = rng.randint(3, 60)
        spec = G.gen_actor(rng, max_iters=L, families=ADVERSARIAL if rng.random() < 0.8 else None,
                           refine=(rng.random() < 0.6), shipped_prob=0.1, small_iters_prob=0.1)
        pre = rng.choice([0, 0, rng.randint(0, L)])
        ops = G.gen_single_ops(rng, "S0", pre, with_solve=rng.random() < 0.9, results_prob=0.2,
                               refine_ops=rng.random() < 0.5)
        if rng.random() < 0.15:
            ops.append({"a": "S0", "op": "solve"})
        if rng.random() < 0.2:
            # refine, search on (possibly into a deeper basin), refine again
            for k in G.gen_batches(rng, rng.randint(1, 25)):
                ops.append({"a": "S0", "op": "iterate", "k": k})
            ops.append({"a": "S0", "op": rng.choice(["refine", "solve"]), "n": rng.choice([-1, 5, 50])})
            ops.append({"a": "S0", "op": "results"})
        ops = G.sprinkle_evq(rng, ops, "S0", spec)
        ops = G.sprinkle_clone(rng, ops, "S0", prob=0.05, spec=spec)
        if L <= 40 and rng.random() < 0.06:
            # painting / console listeners attached (their objective probes are not trials; they must leave the result alone)
            from .suites_multi import gen_listeners
            spec["listeners"] = [ls for ls in gen_listeners(rng, spec["objective"]["N"], L)
                                 if ls.get("mode") not in ("interpolation", "approximation") and ls.get("calc") != "interpolation"]
            spec["params"]["itersLimit"] = min(spec["params"]["itersLimit"], L)
            ops = [o for o in ops if o["op"] != "refine"] + [{"a": "S0", "op": "results"}]
            return G.base_plan(self.prop, run_seed, {"S0": spec}, ops, clock=G.gen_clock(rng))
        if rng.random() < 0.1 and spec.get("lower") is not None:
            # company: a second solver on the SAME box with another objective (a multiple of S0's, so that the two searches visit
            # the same points), both refining
            s1 = copy.deepcopy(spec)
            s1["objective"] = {"family": "scaled", "N": spec["objective"]["N"], "inner": spec["objective"], "k": rng.choice([4.0, 0.25, 2.0])}
            s1["params"]["refineSolution"] = True
            spec["params"]["refineSolution"] = True
            ops1 = [{"a": "S1", "op": "create"}, {"a": "S1", "op": "solve"}, {"a": "S1", "op": "results"}]
            ops = (ops1 + ops) if rng.random() < 0.5 else interleave(rng, [ops, ops1])
            if not any(o["op"] == "solve" for o in ops if o["a"] == "S0"):
                ops.append({"a": "S0", "op": "solve"})
            return G.base_plan(self.prop, run_seed, {"S0": spec, "S1": s1}, ops, clock=G.gen_clock(rng))
        if rng.random() < 0.1:
            # company on another box, often given the very same SolverParameters object; both may refine
            actors = {"S0": spec}
            ops = _maybe_company(rng, actors, ops, force=True)
            if "S1" in actors and rng.random() < 0.7:
                actors["S1"]["params"]["refineSolution"] = True
                if actors["S1"].get("params_obj"):
                    spec["params"]["refineSolution"] = True
            return G.base_plan(self.prop, run_seed, actors, ops, clock=G.gen_clock(rng))
        if rng.random() < 0.1:
            return gen_self_reads(rng, G.base_plan(self.prop, run_seed, {"S0": spec}, ops, clock=G.gen_clock(rng)), prob=1.0)
        return transient_fault_then_continue(rng, G.base_plan(self.prop, run_seed, {"S0": spec}, ops, clock=G.gen_clock(rng)), prob=0.15)

    def nontrivial_key(self, plan, w):
        m = w.monitors[0]
        if m.probe["refinements"] >= 1 and m.probe["local_evals"] >= 1:
            return core.short_hash((plan["actors"]["S0"]["objective"], plan["actors"]["S0"].get("lower"), plan["actors"]["S0"]["params"]))
        return None


class C06(SolverSuite):
    prop = "C06"
    quick_runs = 10000
    thorough_runs = 120000
    rule = ("the search-information record (order, links, count, bijection with the objective log, lengths, images, values) is "
            "checked after every op and inside every OnEndIteration, for one solver or two interleaved (incl. re-entrantly). "
            "non-trivial: >=10 items and at least one insertion to the left of the previous insertion; distinct = hash of "
            "(objective, box, r, schedule signature)")

    def monitors(self):
        from .oracles import C06Monitor
        return [C06Monitor()]

    # extreme values (see run_extreme): whatever happened to the characteristics, the search information stays the record of
    # the trials made - every evaluated trial is listed once with its point and value, coordinates increase from 0 to 1, links
    # and stored lengths are consistent
    def cases(self, rng, tier, run_seed, idx=0):
        if idx % 60 == 9:
            yield gen_extreme(rng, self.prop, run_seed)
            return
        yield self.gen_plan(rng, tier, run_seed)

    def check(self, plan):
        if plan.get("suite") != "liveness":
            return super().check(plan)
        facts = run_extreme(plan)
        rep = extreme_report(self.prop, plan, facts)
        items, calls, N = facts["items"], facts["calls"], plan["N"]
        if facts["fired"] or items is None or not calls:
            rep.inconclusive["extreme_run_without_result"] += 1
            return rep
        if len(calls) >= 2 and calls[0][0] == calls[1][0]:
            # the interval of the very first trial could not be queued: the seeding iteration is started over on the next call
            # (the library's way of retrying a failed first iteration, see C03) and the first evaluation is not kept
            rep.inconclusive["extreme_run_first_iteration_repeated"] += 1
            return rep

        def bad(clause, msg):
            rep.violations.append(core.Violation(self.prop, clause, "%s: %s" % (facts["what"], msg), "after_solve"))
        if isinstance(items, str):
            bad("traversal", "walking the search information raised %s" % items)
            return rep
        xs = [it["x"] for it in items]
        if len(items) != len(calls) + 2:
            bad("count", "%d items for %d evaluated trials (expected trials + 2)" % (len(items), len(calls)))
        elif xs[0] != 0.0 or xs[-1] != 1.0 or any(b <= a for a, b in zip(xs, xs[1:])):
            bad("order", "coordinates are not strictly increasing from 0 to 1: %r" % (xs[:12],))
        else:
            same = lambda a, b: a == b or (a != a and b != b)
            log = list(calls)
            for i, it in enumerate(items):
                if i and (it["left_x"] != xs[i - 1] or not it["left_back"]):
                    bad("links", "item %d at x=%r: its left link does not lead to its predecessor" % (i, it["x"]))
                    break
                if i + 1 < len(items) and (it["right_x"] != xs[i + 1] or not it["right_back"]):
                    bad("links", "item %d at x=%r: its right link does not lead to its successor" % (i, it["x"]))
                    break
                if i and it["delta"] != pow(it["x"] - xs[i - 1], 1.0 / N):
                    bad("delta", "item %d at x=%r stores length %r, (x - x_left)^(1/N) = %r" % (i, it["x"], it["delta"], pow(it["x"] - xs[i - 1], 1.0 / N)))
                    break
                if 0 < i < len(items) - 1:
                    hit = [j for j, (y, v) in enumerate(log) if y == it["y"] and same(v, it["z"])]
                    if not hit:
                        bad("fidelity", "item %d at x=%r stores point %r with value %r: no evaluation of the log has them" % (i, it["x"], it["y"], it["z"]))
                        break
                    log.pop(hit[0])
        return rep

    def gen_plan(self, rng, tier, run_seed):
        L = rng.randint(4, 60) if rng.random() < 0.9 else rng.randint(60, 200)
        spec = G.gen_actor(rng, max_iters=L, refine=(rng.random() < 0.15), shipped_prob=0.1)
        if rng.random() < 0.5:
            spec["params"]["itersLimit"] = L
        if L <= 40 and rng.random() < 0.06:
            # painting / console listeners attached: they read the record and must leave it alone
            from .suites_multi import gen_listeners
            spec["listeners"] = [ls for ls in gen_listeners(rng, spec["objective"]["N"], L)
                                 if ls.get("mode") not in ("interpolation", "approximation") and ls.get("calc") != "interpolation"]
            spec["params"]["itersLimit"] = min(spec["params"]["itersLimit"], L)
            spec["params"]["refineSolution"] = False
        pre = rng.choice([0, rng.randint(0, L), rng.randint(0, L)])
        ops = G.gen_single_ops(rng, "S0", pre, with_solve=rng.random() < 0.8, results_prob=0.1,
                               after_solve_iters=rng.choice([0, rng.randint(1, 8)]), refine_ops=rng.random() < 0.15)
        actors = {"S0": spec}
        ops = G.sprinkle_evq(rng, ops, "S0", spec)
        ops = G.sprinkle_clone(rng, ops, "S0", spec=spec)
        ops = G.sprinkle_misc(rng, ops, "S0")
        ops = _maybe_company(rng, actors, ops)
        if rng.random() < 0.08 and not spec["params"].get("refineSolution") and not spec.get("listeners") \
                and spec.get("lower") is not None and not spec.get("problem_obj") and not any(o["op"] == "refine" for o in ops):
            # the caller re-uses its bound ARRAYS (narrows them in place for the next, zoomed-in solver) while this solver
            # is still searching the box it was constructed with
            lo, up = spec["lower"], spec["upper"]
            nlo = [float("%.4g" % (l + rng.uniform(0.1, 0.4) * (u_ - l))) for l, u_ in zip(lo, up)]
            nup = [float("%.4g" % (u_ - rng.uniform(0.1, 0.4) * (u_ - l))) for l, u_ in zip(lo, up)]
            pos = [j_ for j_, o in enumerate(ops) if o["a"] == "S0" and o["op"] == "create"][0]
            i = rng.randint(pos + 1, len(ops))
            ops = ops[:i] + [{"a": "S0", "op": "narrow_box", "lower": nlo, "upper": nup}] + ops[i:]
        plan = G.base_plan(self.prop, run_seed, actors, ops, clock=G.gen_clock(rng))
        if "S1" in actors and rng.random() < 0.5:
            plan["nested"] = gen_nested(rng, plan, max_entries=2)
        gen_self_reads(rng, plan)
        if rng.random() < 0.06:
            return G.add_listener_fault(rng, plan)
        if rng.random() < 0.03:
            # driver-stepped to double-precision exhaustion (see C02)
            plan2 = next(iter(C02().cases(rng, "quick", run_seed, idx=13)))
            plan2["property"] = self.prop
            return plan2
        return maybe_fault(rng, plan)

    def nontrivial_key(self, plan, w):
        a = w.actors["S0"]
        if len(a.trials) + 2 >= 10 and a.model.probe["left_of_prev"] >= 1:
            return core.short_hash((self.spec_key(plan), w.sig))
        return None


class C20(SolverSuite):
    prop = "C20"
    quick_runs = 12000
    thorough_runs = 150000
    rule = ("config swarm: evolventDensity m in 2..12 is a per-run knob, N in 2..5, any box/objective, 10-60 trials; every "
            "coordinate of every global-phase point crossing the objective seam must be lower+(j+1/2)*side/2^m. non-trivial: "
            "m != 10 (the default would hide a solver that ignores the parameter) and >=10 trials; distinct = hash of "
            "(objective, box, r, m)")

    def monitors(self):
        from .oracles import C20Monitor
        return [C20Monitor()]

    # extreme values (see run_extreme): every point that crosses the objective seam is a cell centre of the configured grid,
    # whatever the objective answers there
    def cases(self, rng, tier, run_seed, idx=0):
        if idx % 60 == 9:
            yield gen_extreme(rng, self.prop, run_seed, dims=(2, 2, 3, 4))
            return
        yield self.gen_plan(rng, tier, run_seed)

    def check(self, plan):
        if plan.get("suite") != "liveness":
            return super().check(plan)
        facts = run_extreme(plan)
        rep = extreme_report(self.prop, plan, facts)
        m = int(plan["params"].get("evolventDensity", 10))
        for n, (y, v) in enumerate(facts["calls"]):
            for i, (yi, lo, hi) in enumerate(zip(y, plan["lower"], plan["upper"])):
                u = (yi - lo) / (hi - lo) * (2 ** m) - 0.5
                j = round(u)
                if abs(u - j) > 1e-6 or not (0 <= j < 2 ** m):
                    rep.violations.append(core.Violation(self.prop, "off_grid", "%s: evaluation #%d coordinate %d = %r is not lower+(j+1/2)*side/2^%d (u=%r)"
                                                         % (facts["what"], n + 1, i, yi, m, u), "global_trial"))
                    return rep
        return rep

    def gen_plan(self, rng, tier, run_seed):
        L = rng.randint(10, 60)
        m = rng.randint(2, 12)
        spec = G.gen_actor(rng, max_iters=L, dims=(2, 3, 4, 5), shipped_prob=0.0, refine=(rng.random() < 0.15), density=m,
                           small_iters_prob=0.0, eps_big_prob=0.05)
        spec["params"]["itersLimit"] = L
        if rng.random() < 0.7:
            spec["params"]["eps"] = G.EPS_MIN[spec["objective"]["N"]]
        pre = rng.choice([0, rng.randint(0, L)])
        ops = G.gen_single_ops(rng, "S0", pre, with_solve=True, results_prob=0.05,
                               after_solve_iters=rng.choice([0, 0, rng.randint(1, 15)]), refine_ops=rng.random() < 0.2)
        if rng.random() < 0.15:
            # refine in mid-search, then search on
            k = rng.randrange(1, len(ops) + 1)
            ops = ops[:k] + [{"a": "S0", "op": "refine", "n": rng.choice([5, 25, 50])}] + ops[k:] + \
                [{"a": "S0", "op": "iterate", "k": rng.randint(1, 20)}]
        ops = G.sprinkle_evq(rng, ops, "S0", spec, prob=0.2)
        ops = G.sprinkle_clone(rng, ops, "S0", prob=0.08, spec=spec)
        actors = {"S0": spec}
        if rng.random() < 0.3:
            # company: solvers (or a bare construction) with OTHER densities whose lifetimes overlap with S0's
            for j in range(1, rng.choice([2, 2, 3])):
                m1 = rng.choice([d for d in range(2, 13) if d != m])
                aid = "S%d" % j
                L1 = rng.randint(3, 25)
                actors[aid] = G.gen_actor(rng, max_iters=L1, dims=(2, 3, 4, 5), shipped_prob=0.0, refine=False, density=m1,
                                          small_iters_prob=0.0, eps_big_prob=0.05)
                actors[aid]["params"]["itersLimit"] = L1
                ops1 = G.gen_single_ops(rng, aid, rng.choice([0, rng.randint(0, L1)]), with_solve=rng.random() < 0.7) if rng.random() < 0.8 \
                    else [{"a": aid, "op": "create"}]
                ops = interleave(rng, [ops, ops1])
        if rng.random() < 0.1:
            # a many-dimensional solver is merely constructed first, on the very parameters object S0 is given afterwards
            lo8, up8 = objectives.gen_box(rng, 8)
            actors["S8"] = {"kind": "solver", "objective": objectives.gen_spec(rng, 8, lo8, up8, ["linear", "paraboloid"]), "lower": lo8, "upper": up8,
                            "params": dict(spec["params"]), "listeners": [], "params_obj": "shared:P"}
            spec["params_obj"] = "shared:P"
            ops = [{"a": "S8", "op": "create"}] + ops
        return transient_fault_then_continue(rng, gen_self_reads(rng, G.base_plan(self.prop, run_seed, actors, ops, clock=G.gen_clock(rng))), prob=0.25, hi=L)

    def nontrivial_key(self, plan, w):
        a = w.actors["S0"]
        m = a.params["evolventDensity"]
        if m != 10 and len(a.global_calls()) >= 10:
            return core.short_hash((self.spec_key(plan), m))
        return None


def transient_fault_then_continue(rng, plan, prob=0.25, hi=30):
    """Fault configuration for the seam monitors (C05, C20): the objective raises once, the
    caller catches the exception (or Solve contains it) and keeps driving the same solver."""
    if rng.random() < prob:
        plan["faults"] = [{"a": "S0", "at_eval": rng.choice([1, 1, 2, rng.randint(2, hi)]),
                           "exc": rng.choice(["ValueError", "KeyboardInterrupt", "SimFault"]), "when": rng.choice(["before", "after"]),
                           "persistent": False}]
        plan["continue_after_fault"] = True
        for _ in range(rng.randint(1, 3)):
            plan["ops"].append({"a": "S0", "op": "iterate", "k": rng.randint(1, 12)})
        if rng.random() < 0.6:
            plan["ops"].append({"a": "S0", "op": "solve"})
        if rng.random() < 0.3:
            plan["ops"].append({"a": "S0", "op": "iterate", "k": rng.randint(1, 12)})
    return plan


def maybe_fault(rng, plan, prob=0.1):
    """Separate fault-injecting configuration: an objective failure inside some evaluation of S0
    (contained by Solve, propagated to the driver by DoGlobalIteration)."""
    if rng.random() < prob:
        plan["faults"] = [{"a": "S0", "at_eval": rng.choice([1, 1, 2, rng.randint(2, 30), rng.randint(2, 30)]),
                           "exc": rng.choice(["ValueError", "KeyboardInterrupt", "SimFault", "MemoryError"]),
                           "when": rng.choice(["before", "after"]), "persistent": False}]
        plan["actors"]["S0"]["params"]["refineSolution"] = False
        if rng.random() < 0.6:
            # the caller catches the exception and keeps driving (inspecting / retrying)
            plan["continue_after_fault"] = True
            for _ in range(rng.randint(1, 3)):
                plan["ops"].append({"a": "S0", "op": rng.choice(["iterate", "iterate", "results", "solve"]), "k": rng.randint(1, 8)})
    return plan


def gen_self_reads(rng, plan, aid="S0", prob=0.12, max_entries=3):
    """The host's own objective / listeners READ the host solver (GetResults, evolvent queries) in mid-operation."""
    if rng.random() >= prob:
        return plan
    spec = plan["actors"][aid]
    for _ in range(rng.randint(1, max_entries)):
        at = rng.choice(["eval", "eval", "eval", "OnEndIteration", "OnMethodStop", "BeforeMethodStart"])
        index = rng.randint(1, 30) if at in ("eval", "OnEndIteration") else 1
        ops = [{"a": aid, "op": "results"}]
        if rng.random() < 0.4:
            ops.append(G.gen_evq(rng, aid, spec))
        plan.setdefault("nested", []).append({"host": aid, "at": at, "index": index, "ops": ops})
    return plan


def gen_nested(rng, plan, max_entries=3, hosts=None):
    """Re-entrant pre-emption: inside host's i-th evaluation / callback, run ops of other actors."""
    aids = sorted(plan["actors"])
    out = []
    if len(aids) < 2:
        return out
    for _ in range(rng.randint(1, max_entries)):
        host = rng.choice(hosts or aids)
        others = [a for a in aids if a != host]
        tgt = rng.choice(others)
        at = rng.choice(["eval", "eval", "OnEndIteration", "OnMethodStop", "BeforeMethodStart"])
        index = rng.randint(1, 25) if at in ("eval", "OnEndIteration") else 1
        ops = [{"a": tgt, "op": "create"}]
        for _ in range(rng.randint(1, 3)):
            k = rng.choice(["iterate", "iterate", "results", "solve"])
            if k == "iterate":
                ops.append({"a": tgt, "op": "iterate", "k": rng.randint(1, 4)})
            else:
                ops.append({"a": tgt, "op": k})
        out.append({"host": host, "at": at, "index": index, "ops": ops})
    return out


REGISTRY = {}


def register(cls):
    REGISTRY[cls.prop] = cls
    return cls


for _c in (C02, C03, C04, C05, C06, C20):
    register(_c)


def get_suite(prop):
    if prop not in REGISTRY:
        # late registration of the other suite modules
        from . import suites_multi, suites_small  # noqa: F401
    return REGISTRY[prop]()
