"""Runner: seeded search over plans on a process pool, shrinking, replay files, evidence."""
import json
import multiprocessing
import os
import pickle
import select
import random
import signal
import subprocess
import sys
import time
import traceback
from collections import Counter
from concurrent.futures import ProcessPoolExecutor, as_completed

from . import core
from .core import HarnessError, WatchdogStop

RUN_WALL_S = 120          # per simulated run (wall) - a hang inside repo code
CHUNK = 8
COMPONENTS_REAL = ["Solver", "Process", "Method", "OptimizationTask", "SearchData", "SearchDataDualQueue",
                   "CharacteristicsQueue (+ real depq)", "Evolvent", "Solution/Trial/Point/FunctionValue",
                   "Listener base + all shipped listeners, painters rendering through matplotlib-Agg",
                   "scipy Nelder-Mead", "all shipped benchmark problems"]
COMPONENTS_SIM = ["user driver (scheduler)", "user objective (SimProblem seam)", "user listeners", "wall clock (process.datetime)",
                  "file system / figure sink (painters' os, pyplot.savefig/show)", "stdout"]


def _alarm_handler(signum, frame):
    raise WatchdogStop("wall-clock watchdog")


def _check_in_child(suite, plan):
    signal.signal(signal.SIGALRM, _alarm_handler)
    signal.setitimer(signal.ITIMER_REAL, float(plan.get("wall_s", RUN_WALL_S)), 5.0)
    try:
        return suite.check(plan)
    finally:
        signal.setitimer(signal.ITIMER_REAL, 0)


def run_one(suite, plan):
    """Execute + decide one plan in a freshly forked child, so that every plan starts from the
    pristine post-import state of the code under test (process-global state leaking from one
    simulated run into the next would make replay depend on what ran before).  The child has a
    wall watchdog; the parent kills a child that misses it.  Returns Report."""
    from .gen_solver import finalise_plan
    finalise_plan(plan)
    if os.environ.get("VERIF_NOFORK"):
        return _check_in_child(suite, plan)
    r, w = os.pipe()
    sys.stdout.flush()
    pid = os.fork()
    if pid == 0:
        code = 0
        try:
            os.close(r)
            try:
                rep = _check_in_child(suite, plan)
                data = pickle.dumps(("ok", rep))
            except HarnessError as e:
                data = pickle.dumps(("harness", "".join(traceback.format_exception(type(e), e, e.__traceback__))))
            except BaseException as e:
                data = pickle.dumps(("harness", "".join(traceback.format_exception(type(e), e, e.__traceback__))))
            with os.fdopen(w, "wb") as f:
                f.write(data)
        except BaseException:
            code = 3
        finally:
            os._exit(code)
    os.close(w)
    chunks = []
    deadline = time.time() + 2 * float(plan.get("wall_s", RUN_WALL_S)) + 30
    timed_out = False
    with os.fdopen(r, "rb") as f:
        while True:
            left = deadline - time.time()
            if left <= 0:
                timed_out = True
                break
            ready, _, _ = select.select([f], [], [], min(left, 5.0))
            if ready:
                b = os.read(f.fileno(), 1 << 20)
                if not b:
                    break
                chunks.append(b)
    if timed_out:
        try:
            os.kill(pid, signal.SIGKILL)
        except OSError:
            pass
    os.waitpid(pid, 0)
    if timed_out:
        raise HarnessError("simulated run exceeded the hard wall limit and was killed")
    try:
        kind, payload = pickle.loads(b"".join(chunks))
    except Exception as e:
        raise HarnessError("child of a simulated run died without a result: %r" % (e,))
    if kind != "ok":
        raise HarnessError(payload)
    return payload


def _worker(args):
    prop, tier, master, start, count = args
    from .suites import get_suite
    import faulthandler
    faulthandler.enable()
    suite = get_suite(prop)
    out = {"start": start, "n_cases": 0, "n_exec": 0, "nontrivial": set(), "probes": Counter(), "fired": Counter(),
           "inconclusive": Counter(), "sim_time": 0.0, "sigs": set(), "violations": [], "samples": [], "n_ops": 0,
           "harness_error": None}
    try:
        for idx in range(start, start + count):
            run_seed = core.derive(master, prop, tier, idx)
            rng = random.Random(run_seed)
            for plan in suite.cases(rng, tier, run_seed, idx=idx):
                rep = run_one(suite, plan)
                out["n_cases"] += 1
                out["n_exec"] += rep.n_exec
                out["n_ops"] += rep.n_ops
                out["probes"].update(rep.probes)
                out["fired"].update(rep.fired)
                out["inconclusive"].update(rep.inconclusive)
                out["sim_time"] += rep.sim_time
                if rep.sig:
                    out["sigs"].add(rep.sig)
                if rep.nontrivial is not None:
                    out["nontrivial"].add(rep.nontrivial)
                    if len(out["samples"]) < 3:
                        out["samples"].append((idx, plan))
                if rep.violations:
                    v = rep.violations[0]
                    out["violations"].append({"idx": idx, "plan": getattr(rep, "replay_plan", None) or plan,
                                              "violation": v.to_json(), "digest": rep.digest})
                    if len(out["violations"]) >= 3:
                        return out
    except HarnessError as e:
        out["harness_error"] = "".join(traceback.format_exception(type(e), e, e.__traceback__))
    except WatchdogStop as e:
        out["harness_error"] = "wall-clock watchdog fired outside a guarded region: %s" % e
    except BaseException as e:
        out["harness_error"] = "".join(traceback.format_exception(type(e), e, e.__traceback__))
    return out


def load_known():
    known, fixed = [], []
    p = os.path.join(core.VERIF_DIR, "known-findings.txt")
    if os.path.exists(p):
        for line in open(p):
            line = line.strip()
            if line.startswith("known:"):
                d = dict(tok.split("=", 1) for tok in line[6:].split() if "=" in tok and tok.split("=")[0] in ("property", "clause", "locus"))
                d["text"] = line[6:].strip()
                known.append(d)
            elif line.startswith("fixed:"):
                fixed.append(line)
    return known, fixed


def is_known(known, vio):
    for k in known:
        if k.get("property") == vio["property"] and k.get("clause") == vio["clause"] and k.get("locus", vio["locus"]) == vio["locus"]:
            return k
    return None


def main_check(prop, tier, replay=None):
    from .suites import get_suite
    t0 = time.time()
    master = int(os.environ.get("VERIF_SEED", "1"))
    suite = get_suite(prop)
    if replay:
        return main_replay(suite, replay)
    print("VERIF_SEED=%d property=%s tier=%s repo=%s" % (master, prop, tier, core.REPO), flush=True)
    n_runs = int(os.environ.get("VERIF_RUNS", suite.quick_runs if tier == "quick" else suite.thorough_runs))
    budget = float(os.environ.get("VERIF_BUDGET_S", 150 if tier == "quick" else 1500))
    workers = int(os.environ.get("VERIF_WORKERS", min(16, os.cpu_count() or 1)))
    chunk = max(1, min(CHUNK, n_runs // (workers * 4) or 1))
    chunk = getattr(suite, "chunk", chunk)
    tasks = [(prop, tier, master, s, min(chunk, n_runs - s)) for s in range(0, n_runs, chunk)]
    agg = {"n_cases": 0, "n_exec": 0, "nontrivial": set(), "probes": Counter(), "fired": Counter(), "inconclusive": Counter(),
           "sim_time": 0.0, "sigs": set(), "violations": [], "samples": [], "n_ops": 0}
    harness_errors = []
    results = {}
    ctx = multiprocessing.get_context("fork")
    done_tasks = 0
    cut = False
    with ProcessPoolExecutor(max_workers=workers, mp_context=ctx) as ex:
        pending = {}
        it = iter(tasks)
        # keep the queue short so that the wall budget can cut the search cleanly
        for _ in range(workers * 2):
            t = next(it, None)
            if t is None:
                break
            pending[ex.submit(_worker, t)] = t
        while pending:
            fut = next(as_completed(list(pending)))
            t = pending.pop(fut)
            try:
                r = fut.result()
            except BaseException as e:
                harness_errors.append("worker died on task %r: %r" % (t, e))
                break
            results[t[3]] = r
            done_tasks += 1
            if r["harness_error"]:
                harness_errors.append(r["harness_error"])
            stop = bool(harness_errors) or sum(len(x["violations"]) for x in results.values()) >= 3
            if time.time() - t0 > budget:
                cut = True
            if not stop and not cut:
                nt = next(it, None)
                if nt is not None:
                    pending[ex.submit(_worker, nt)] = nt
    for s in sorted(results):
        r = results[s]
        for k in ("n_cases", "n_exec", "sim_time", "n_ops"):
            agg[k] += r[k]
        for k in ("probes", "fired", "inconclusive"):
            agg[k].update(r[k])
        agg["nontrivial"] |= r["nontrivial"]
        agg["sigs"] |= r["sigs"]
        agg["violations"].extend(r["violations"])
        agg["samples"].extend(r["samples"])
    agg["samples"] = [p for (_, p) in sorted(agg["samples"], key=lambda t: t[0])[:3]]
    wall_search = time.time() - t0
    if harness_errors:
        print("HARNESS-ERROR property=%s\n%s" % (prop, harness_errors[0]), flush=True)
        return 2
    # violations: lowest run index first; one per clause
    known, fixed = load_known()
    agg["violations"].sort(key=lambda v: v["idx"])
    reported = []
    seen_clause = set()
    exit_code = 0
    for v in agg["violations"]:
        key = (v["violation"]["clause"], v["violation"]["locus"])
        if key in seen_clause:
            continue
        seen_clause.add(key)
        k = is_known(known, v["violation"])
        if k is not None:
            print("KNOWN-FINDING: property=%s %s" % (prop, k["text"]), flush=True)
            continue
        path = finalize_violation(suite, v)
        if path is None:
            print("HARNESS-ERROR property=%s violation did not reproduce: %s" % (prop, v["violation"]), flush=True)
            return 2
        print("VIOLATION property=%s replay=%s" % (prop, path), flush=True)
        print("  clause=%s locus=%s: %s" % (v["violation"]["clause"], v["violation"]["locus"], v["violation"]["message"][:400]), flush=True)
        reported.append(path)
        exit_code = 1
        if len(reported) >= 2:
            break
    # determinism re-check: the first plans of this very run, executed twice more, must give the same digests
    det = {"plans": 0, "equal": 0}
    if exit_code == 0:
        for idx in range(min(8, n_runs)):
            run_seed = core.derive(master, prop, tier, idx)
            plan = next(iter(suite.cases(random.Random(run_seed), tier, run_seed, idx=idx)), None)
            if plan is None:
                continue
            d1, d2 = run_one(suite, plan).digest, run_one(suite, plan).digest
            det["plans"] += 1
            det["equal"] += int(d1 == d2)
        if det["plans"] != det["equal"]:
            print("HARNESS-ERROR property=%s nondeterministic execution: %r" % (prop, det), flush=True)
            return 2
    agg["determinism_recheck"] = det
    wall = time.time() - t0
    write_evidence(suite, prop, tier, master, agg, wall, wall_search, n_runs, cut, len(reported), workers)
    print("property=%s tier=%s cases=%d executions=%d nontrivial=%d violations=%d wall=%.1fs%s" % (
        prop, tier, agg["n_cases"], agg["n_exec"], len(agg["nontrivial"]), len(reported), wall,
        " (cut by wall budget)" if cut else ""), flush=True)
    if agg["n_cases"] == 0:
        print("HARNESS-ERROR property=%s nothing explored" % prop)
        return 2
    return exit_code


def write_evidence(suite, prop, tier, master, agg, wall, wall_search, n_planned, cut, n_viol, workers):
    hours = max(wall_search, 1e-9) / 3600.0
    zero_probes = sorted(k for k, v in agg["probes"].items() if v == 0)
    ev = {
        "property_id": prop, "tier": tier, "seed": master, "level": suite.level,
        "coverage": {
            "evaluations": agg["n_cases"],
            "distinct_nontrivial": len(agg["nontrivial"]),
            "rule": suite.rule,
            "samples": agg["samples"][:3] if agg["samples"] else [],
            "simulated_executions": agg["n_exec"],
            "driver_ops": agg["n_ops"],
            "runs_per_hour": int(agg["n_cases"] / hours),
            "seeds_planned": n_planned,
            "cut_by_wall_budget": cut,
            "workers": workers,
            "simulated_time_s": round(agg["sim_time"], 3),
            "faults_fired": dict(sorted(agg["fired"].items())),
            "distinct_schedule_signatures": len(agg["sigs"]),
            "probes": dict(sorted(agg["probes"].items())),
            "probes_at_zero": zero_probes,
            "inconclusive": dict(sorted(agg["inconclusive"].items())),
            "determinism_recheck": agg.get("determinism_recheck"),
            "components_real": COMPONENTS_REAL if getattr(suite, "components_real", None) is None else suite.components_real,
            "components_simulated": COMPONENTS_SIM if getattr(suite, "components_sim", None) is None else suite.components_sim,
            "exhaustive": False,
        },
        "assumptions": [
            "a clean batch is evidence, not proof: objectives, boxes, parameters and schedules are sampled by seeded search",
            "the repo's Evolvent is used as a black box for 'image of x' (an evolvent that is wrong but pure is invisible here: C07-C09)",
            "numpy/scipy/matplotlib/depq/sklearn as installed are trusted",
        ] + list(getattr(suite, "assumptions", [])),
        "wall_s": round(wall, 2),
        "violations": n_viol,
    }
    if not ev["coverage"]["samples"]:
        ev["coverage"]["samples"] = [{"note": "no non-trivial case in this run"}]
    extra = getattr(suite, "extra_evidence", None)
    if extra:
        ev["coverage"].update(extra(agg))
    evdir = os.environ.get("VERIF_EVIDENCE_DIR") or os.path.join(core.VERIF_DIR, "evidence")
    os.makedirs(evdir, exist_ok=True)
    with open(os.path.join(evdir, prop + ".json"), "w") as f:
        json.dump(ev, f, indent=1, sort_keys=False, default=str)


def finalize_violation(suite, v):
    """confirm -> shrink -> write replay -> verify in a fresh interpreter."""
    from . import shrink
    plan = v["plan"]
    vio = v["violation"]
    rep = run_one(suite, plan)
    same = [x for x in rep.violations if x.clause == vio["clause"]]
    if not same:
        return None
    t0 = time.time()
    small, n_tests = shrink.shrink(suite, plan, vio["clause"], budget_s=float(os.environ.get("VERIF_SHRINK_S", 60)))
    rep2 = run_one(suite, small)
    v2 = [x for x in rep2.violations if x.clause == vio["clause"]][0]
    d = os.path.join(os.environ.get("VERIF_REPLAY_DIR") or os.path.join(core.VERIF_DIR, "replays"), suite.prop)
    os.makedirs(d, exist_ok=True)
    path = os.path.join(d, "%d-%s.json" % (plan.get("run_seed", 0), core.short_hash((v2.clause, v2.locus, json.dumps(small, sort_keys=True, default=str)))[:8]))
    rec = {"property": suite.prop, "violation": v2.to_json(), "digest": rep2.digest, "plan": small,
           "shrink": {"tests": n_tests, "wall_s": round(time.time() - t0, 2), "ops_before": _count_ops(plan), "ops_after": _count_ops(small)},
           "unminimised_plan": plan, "verif_seed": int(os.environ.get("VERIF_SEED", "1")), "run_index": v["idx"]}
    with open(path, "w") as f:
        json.dump(rec, f, indent=1, default=str)
    # fresh-interpreter replay must reproduce the same clause and digest
    env = dict(os.environ)
    env["PYTHONHASHSEED"] = "0"
    cp = subprocess.run([os.path.join(core.VERIF_DIR, "check"), suite.prop, "--replay", path],
                        capture_output=True, text=True, env=env, timeout=600)
    ok = cp.returncode == 1 and "REPLAY-MATCH clause=%s digest=%s" % (v2.clause, rep2.digest) in cp.stdout
    if not ok:
        print("replay in fresh interpreter did not reproduce:\n" + cp.stdout[-2000:] + cp.stderr[-2000:], flush=True)
        return None
    return path


def _count_ops(plan):
    n = len(plan.get("ops", []))
    for e in plan.get("nested", []) or []:
        n += len(e.get("ops", []))
    return n


def main_replay(suite, path):
    rec = json.load(open(path))
    plan = rec["plan"] if "plan" in rec else rec
    rep = run_one(suite, plan)
    want = rec.get("violation", {}).get("clause")
    print("replay %s: %d violation(s); digest=%s" % (path, len(rep.violations), rep.digest))
    for v in rep.violations[:5]:
        print("  %r" % v)
    if rep.violations:
        same = [v for v in rep.violations if want is None or v.clause == want]
        v = (same or rep.violations)[0]
        print("REPLAY-MATCH clause=%s digest=%s" % (v.clause, rep.digest))
        if rec.get("digest") and rec["digest"] != rep.digest:
            print("note: digest differs from the recorded one (%s)" % rec["digest"])
        print("VIOLATION property=%s replay=%s" % (suite.prop, path))
        return 1
    print("replay: property held on this plan")
    return 0
